#!/usr/bin/env python3
# Regenerates /verif/MANIFEST.json from harness/index.json (claimed = has a harness) and notes.json.
import json
props=[json.loads(l) for l in open('/verif/properties.jsonl')]
idx=json.load(open('/verif/harness/index.json'))
notes=json.load(open('/verif/manifest_notes.json'))
claimed=set()
for h in idx['harnesses']:
    for p in h.get('properties',[h.get('property')]):
        claimed.add(p)
claimed-=set(notes.get('not_applicable',{}).keys())
m={
 "version":1,
 "setup_cmd":"cd /verif/engine && GOFLAGS=-mod=mod GOPROXY=off go build -o /verif/bin/gosym ./cmd/gosym",
 "hooks":{"guard":"verif","enable":"harness files under /verif/harness are injected as /repo/<pkg>/zz_verif_*.go through go/packages Overlay and `go test -overlay`, built with -tags=verif; /repo itself carries no hook commits","baseline_off_cmd":"cd /repo && go test -vet=off -count=1 -timeout 25m ./...","source_commits":[],"add_only":True},
 "engines":[{"name":"gosym","path":"/verif/engine","serves_properties":sorted(claimed),"kind_free_text":"symbolic interpreter over go/ssa of the real code (path forking by re-execution; SMT queries to z3 over bit-vectors/FP plus an exact finite-domain fast path for single-variable conditions), cooperative scheduler for goroutines with delay bounding, native replay of models via go test -overlay"}],
 "checks":[],
 "not_applicable":[],
 "notes":notes.get('notes','')
}
WIDE={'C01','C02','C04','C05','C07','C08','C09','C10','C18','C19'}
def tech(pid):
    base="symbolic execution of the real functions (go/ssa, path forking by re-execution, cooperative scheduler with a delay bound); "
    if pid in WIDE:
        return base+"64-bit symbolic values and every assertion over them decided by SMT (z3 bit-vectors, cvc5 for floating point); declared finite choices by z3 in the thorough tier and in the quick tier of the light harnesses, by exact finite-domain evaluation in the quick tier of the heavy ones; native replay of counterexamples"
    return base+"inputs are declared finite choices (scenario, fault index, result kinds) and schedules: every feasibility/assertion question decided by z3 in the thorough tier and in the quick tier of the light harnesses, by exact finite-domain evaluation (identical verdicts, DESIGN 0.2) in the quick tier of the heavy ones; native replay of counterexamples"
for p in props:
    pid=p['id']
    if pid in claimed:
        n=notes.get('checks',{}).get(pid,{})
        m['checks'].append({
          "property_id":pid,
          "quick_cmd":"/verif/bin/gosym check %s quick"%pid,
          "thorough_cmd":"/verif/bin/gosym check %s thorough"%pid,
          "evidence_file":"/verif/evidence/%s.json"%pid,
          "replay_cmd_template":"/verif/bin/gosym replay {path}",
          "engine":"gosym",
          "level_claimed":{"category":"model_checking","text":n.get('text',"bounded symbolic execution of the real functions: every feasible path of the harnesses within the stated bounds is decided (z3 / exact finite-domain reasoning) for all values of its symbolic variables; counterexamples are replayed natively before being reported"),"design_ref":"DESIGN.md §0.3 and §4 "+pid},
          "level_note":n.get('note',"bounds, stubs and intrinsics are listed in the evidence file (coverage.bounds, coverage.trusted_base, coverage.harnesses[].outside_claim)"),
          "technique":tech(pid)
        })
    else:
        r=notes.get('not_applicable',{}).get(pid,"check not built yet in this revision (engine under construction)")
        m['not_applicable'].append({"property_id":pid,"reason":r})
json.dump(m,open('/verif/MANIFEST.json','w'),indent=1)
print("claimed:",sorted(claimed))
