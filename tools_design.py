#!/usr/bin/env python3
# Regenerates the generated blocks of DESIGN.md (harness inventory, seeded-change matrix).
import json,os,re
idx=json.load(open('/verif/harness/index.json'))
def tier(t):
    parts=[]
    if t.get('params'): parts.append(','.join(f"{k}={v}" for k,v in sorted(t['params'].items())))
    if t.get('delays'): parts.append(f"delays={t['delays']}")
    if t.get('no_fastpath'): parts.append("all-SMT")
    if t.get('solver'): parts.append(t['solver'])
    return ' '.join(parts) or '—'
rows=["| harness | package · entry | properties | bound (quick → thorough) | outside the claim |","|---|---|---|---|---|"]
for h in idx['harnesses']:
    props=h.get('properties') or [h.get('property')]
    q=tier(h.get('quick',{})); t=tier({**h.get('quick',{}),**{k:v for k,v in h.get('thorough',{}).items() if v}})
    b=h.get('bounds','').replace('|','/')
    rows.append(f"| `{h['name']}` | `{h['pkg']}` · `{h['entry']}` | {' '.join(props)} | {b} [{q} → {t}] | {h.get('outside','').replace('|','/') or '—'} |")
hb='\n'.join(rows)
# seeded
res={}
if os.path.exists('/verif/seeded/results.tsv'):
    for l in open('/verif/seeded/results.tsv'):
        f=l.rstrip('\n').split('\t')
        if len(f)>=2: res[f[0]]=(f[1], f[2] if len(f)>2 else '')
first=json.load(open('/verif/seeded/first_run.json')) if os.path.exists('/verif/seeded/first_run.json') else {}
srows=["| seed | change (needs …) | first run | now | caught by (first reported) | what was strengthened |","|---|---|---|---|---|---|"]
for d in sorted(os.listdir('/verif/seeded')):
    mp=f'/verif/seeded/{d}/meta.json'
    if not os.path.exists(mp): continue
    m=json.load(open(mp))
    line,firstv=res.get(d,('not run',''))
    mm=re.search(r'exit=(\d+)',line)
    now={'1':'caught','0':'MISSED','2':'broken'}.get(mm.group(1),'?') if mm else 'not run'
    hn=re.search(r'replays/C\d+/([a-z0-9_]+)-(violation|validate)',firstv)
    caught_by=hn.group(1) if hn else ''
    fr=first.get(d,{})
    srows.append(f"| {d} | {m['change']} (needs: {m['needs_to_manifest']}) | {fr.get('first','?')} | {now} | `{caught_by}` | {fr.get('fix','—')} |")
sb='\n'.join(srows)
s=open('/verif/DESIGN.md').read()
def put(s,tag,body):
    a=f'<!-- BEGIN GENERATED: {tag} -->'; b=f'<!-- END GENERATED: {tag} -->'
    i=s.index(a)+len(a); j=s.index(b)
    return s[:i]+'\n'+body+'\n'+s[j:]
s=put(s,'harnesses',hb); s=put(s,'seeded',sb)
open('/verif/DESIGN.md','w').write(s)
print('harness rows',len(rows)-2,'seed rows',len(srows)-2)
