//go:build verif

package atomicfile

// C19 (atomic replacement): the real WriteFile over the in-memory file system
// model; a crash is observed at every durable-state boundary (fs.Step), one
// arbitrary operation may fail. Whatever happens, the target path holds either
// the previous complete content or the new complete content.

import (
	zzvfs "github.com/conduitio/conduit/pkg/zzverifvfs"
)

func init() { verifRegister("VerifC19Atomic", VerifC19Atomic) }

type atomWorld struct {
	fs      *zzvfs.FS
	path    string
	hasOld  bool
	old     []byte
	new     []byte
	faulted bool
	armed   int
	ops     int
	failAt  int
}

func (w *atomWorld) fault(op, p string) bool {
	if w.armed > 0 {
		k := verifConcrete(verifChoice("failAt", w.armed+1))
		w.armed = 0
		w.failAt = w.ops + k - 1
		if k == 0 {
			w.failAt = -1
		}
	}
	w.ops++
	if w.ops-1 == w.failAt {
		w.faulted = true
		return true
	}
	return false
}

func same(a, b []byte) bool {
	if len(a) != len(b) {
		return false
	}
	for i := range a {
		if a[i] != b[i] {
			return false
		}
	}
	return true
}

// crashCheck is the oracle evaluated at every crash point.
func (w *atomWorld) crashCheck(op, p string) {
	data, ok, torn := w.fs.Durable(w.path)
	if !ok {
		verifAssert(!w.hasOld, "c19-atomic-target-vanished")
		return
	}
	verifAssert(!torn, "c19-atomic-torn-file")
	verifAssert((w.hasOld && same(data, w.old)) || same(data, w.new), "c19-atomic-partial-content")
}

func VerifC19Atomic() {
	w := &atomWorld{fs: zzvfs.New(), path: "/d/state.json", failAt: -1}
	zzvfs.Cur = w.fs
	w.fs.PutDir("/d")
	w.old = []byte("{\"doc\":0001}")
	w.new = []byte("{\"doc\":0002}")
	w.hasOld = verifBool("hasOld")
	if w.hasOld {
		w.fs.Put(w.path, w.old)
	}
	w.armed = 12
	w.fs.Fault = w.fault
	w.fs.Step = w.crashCheck

	err := WriteFile(w.path, w.new, 0o644)

	w.crashCheck("end", w.path)
	data, ok, _ := w.fs.Durable(w.path)
	if err == nil {
		verifAssert(ok && same(data, w.new), "c19-atomic-success-without-new-content")
		verifCover("written")
	} else {
		verifAssert(w.faulted, "c19-atomic-spurious-error")
		verifCover("failed")
	}
	verifObserve("result", err == nil, ok, string(data))
}
