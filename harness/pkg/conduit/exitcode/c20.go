//go:build verif

package exitcode

// C20: error classification (fatal-ness, code, sentinel, exit code) is stable
// under every wrapping shape built from the repository's error constructors.
// A shadow record kept next to each constructed error is the oracle.

import (
	"context"
	"fmt"
	"syscall"

	"github.com/conduitio/conduit/pkg/foundation/cerrors"
	"github.com/conduitio/conduit/pkg/foundation/cerrors/conduiterr"
	"google.golang.org/grpc/codes"
	"google.golang.org/grpc/status"
	"google.golang.org/protobuf/protoadapt"
)

// Under the engine the protobuf Any packing inside Status.WithDetails/Details
// (reflection based) is replaced by a plain container keyed by the status.
var vDetails = map[*status.Status][]any{}

func verifStubWithDetails(s *status.Status, details ...protoadapt.MessageV1) (*status.Status, error) {
	out := status.New(s.Code(), s.Message())
	var ds []any
	for _, d := range details {
		ds = append(ds, d)
	}
	vDetails[out] = ds
	return out, nil
}

func verifStubDetails(s *status.Status) []any { return vDetails[s] }

// Under the engine status.Error / status.FromError (protobuf cloning inside) are
// replaced by a plain carrier of the same (code, message); natively the real
// functions run.
type vGRPCErr struct{ st *status.Status }

func (e *vGRPCErr) Error() string              { return "rpc error: " + e.st.Message() }
func (e *vGRPCErr) GRPCStatus() *status.Status { return e.st }

func verifStubStatusError(c codes.Code, msg string) error {
	return &vGRPCErr{st: status.New(c, msg)}
}

func verifStubFromError(err error) (*status.Status, bool) {
	if err == nil {
		return nil, true
	}
	var ge *vGRPCErr
	if cerrors.As(err, &ge) {
		return ge.st, true
	}
	return status.New(codes.Unknown, "unknown"), false
}

func init() {
	verifRegister("VerifC20Trees", VerifC20Trees)
	verifRegister("VerifC20RoundTrip", VerifC20RoundTrip)
}

type vShadow struct {
	fatal    bool
	hasCode  bool
	code     conduiterr.Code
	canceled bool
	envSent  bool
	sentinel bool // contains vSentinel
	twoW     bool // built with cerrors.Errorf carrying two %w verbs somewhere (the recorded known finding)
	hasGRPC  bool // contains a raw gRPC status error (as a client sees a server failure)
	grpc     codes.Code
}

var vSentinel = cerrors.New("verif sentinel")

var vCodes = []conduiterr.Code{
	conduiterr.CodeInternal,
	conduiterr.CodeInvalidArgument,
	conduiterr.CodeNotFound,
	conduiterr.CodeExternalConnectorUnreachable,
	conduiterr.CodeExternalConnectorVersionMismatch,
	conduiterr.CodeUnknown,
}

type vBuilder struct {
	budget      int
	doubleW     bool
	withGRPC    bool
	joinsOnly   bool
	plainLeaves bool
	grpcLeaves  bool
}

// leaf draws a leaf error.
func (b *vBuilder) leaf() (error, vShadow) {
	nLeaf := 6
	if b.grpcLeaves {
		nLeaf = 7
	}
	if b.plainLeaves {
		nLeaf = 2
	}
	switch verifConcrete(verifChoice("leaf", nLeaf)) {
	case 0:
		return cerrors.New("plain"), vShadow{}
	case 1:
		return vSentinel, vShadow{sentinel: true}
	case 2:
		c := vCodes[verifConcrete(verifChoice("code", len(vCodes)))]
		return conduiterr.New(c, "coded"), vShadow{hasCode: true, code: c}
	case 3:
		return context.Canceled, vShadow{canceled: true}
	case 4:
		return syscall.ECONNREFUSED, vShadow{envSent: true}
	case 5:
		// the boundary fallback: reason internal.unknown, category kept
		e := conduiterr.WithUnknownReason(cerrors.New("unclassified"), codes.NotFound)
		return e, vShadow{hasCode: true, code: e.Code}
	default:
		// a raw gRPC status error, category chosen
		c := []codes.Code{codes.Unavailable, codes.Internal, codes.NotFound}[verifConcrete(verifChoice("grpc", 3))]
		return status.Error(c, "rpc failed"), vShadow{hasGRPC: true, grpc: c}
	}

}

// build constructs an error by a symbolic choice of constructors, consuming
// one unit of budget per node.
func (b *vBuilder) build() (error, vShadow) {
	b.budget--
	if b.budget <= 0 {
		return b.leaf()
	}
	nOps := 7
	if b.doubleW {
		nOps = 8
	}
	op := 0
	if b.joinsOnly {
		// only the tree-shaping constructors: leaf, %w wrap, join, fatal mark
		op = []int{0, 1, 3, 4}[verifConcrete(verifChoice("op", 4))]
	} else {
		op = verifConcrete(verifChoice("op", nOps))
	}
	switch op {
	case 0: // a leaf here; the remaining budget stays available to the siblings
		return b.leaf()
	case 1:
		e, s := b.build()
		return cerrors.Errorf("wrapped: %w", e), s
	case 2:
		e, s := b.build()
		return fmt.Errorf("wrapped (fmt): %w", e), s
	case 3:
		e1, s1 := b.build()
		e2, s2 := b.build()
		return cerrors.Join(e1, e2), joinShadow(s1, s2)
	case 4:
		e, s := b.build()
		s.fatal = true
		return cerrors.FatalError(e), s
	case 5:
		e, s := b.build()
		c := vCodes[verifConcrete(verifChoice("code", len(vCodes)))]
		if !s.hasCode {
			s.hasCode, s.code = true, c
		}
		return conduiterr.Wrap(c, "wrap", e), s
	case 6:
		e, s := b.build()
		c := vCodes[verifConcrete(verifChoice("code", len(vCodes)))]
		s.hasCode, s.code = true, c
		return conduiterr.WithCode(e, c), s
	default: // two %w verbs in one cerrors.Errorf
		e1, s1 := b.build()
		e2, s2 := b.build()
		js := joinShadow(s1, s2)
		js.twoW = true
		return cerrors.Errorf("%w (while handling: %w)", e1, e2), js
	}
}

func joinShadow(a, b vShadow) vShadow {
	out := a
	out.fatal = a.fatal || b.fatal
	out.canceled = a.canceled || b.canceled
	out.envSent = a.envSent || b.envSent
	out.sentinel = a.sentinel || b.sentinel
	out.twoW = a.twoW || b.twoW
	if !a.hasGRPC && b.hasGRPC {
		out.hasGRPC, out.grpc = true, b.grpc
	}
	if !a.hasCode && b.hasCode {
		out.hasCode, out.code = true, b.code
	}
	return out
}

// refExit is the documented exit-code table applied to the classification.
func refExit(s vShadow) int {
	if s.canceled {
		return 0
	}
	if s.hasCode {
		switch s.code.GRPCCode() {
		case codes.OK, codes.Canceled:
			return 0
		case codes.InvalidArgument, codes.NotFound, codes.AlreadyExists, codes.FailedPrecondition, codes.OutOfRange:
			return 2
		case codes.Unavailable, codes.DeadlineExceeded, codes.ResourceExhausted, codes.Unauthenticated, codes.PermissionDenied:
			return 3
		}
		return 1
	}
	if s.hasGRPC {
		switch s.grpc {
		case codes.OK, codes.Canceled:
			return 0
		case codes.InvalidArgument, codes.NotFound, codes.AlreadyExists, codes.FailedPrecondition, codes.OutOfRange:
			return 2
		case codes.Unavailable, codes.DeadlineExceeded, codes.ResourceExhausted, codes.Unauthenticated, codes.PermissionDenied:
			return 3
		}
		return 1
	}
	if s.envSent {
		return 3
	}
	return 1
}

func VerifC20Trees() {
	b := &vBuilder{budget: verifParam("nodes", 3), doubleW: verifParam("doubleW", 0) == 1,
		joinsOnly: verifParam("joinsOnly", 0) == 1, plainLeaves: verifParam("joinsOnly", 0) == 1,
		grpcLeaves: verifParam("grpcLeaves", 0) == 1}
	e, s := b.build()
	// violations on trees that contain the two-%w constructor are the recorded
	// known finding: they carry their own label family so that nothing else is
	// ever matched by it
	L := func(label string) string {
		if s.twoW {
			return "c20-2w-" + label[4:]
		}
		return label
	}
	verifAssert(cerrors.IsFatalError(e) == s.fatal, L("c20-fatal-mark-lost-or-invented"))
	ce, ok := conduiterr.Get(e)
	verifAssert(ok == s.hasCode, L("c20-code-lost-or-invented"))
	if ok && s.hasCode {
		verifAssert(ce.Code.Reason() == s.code.Reason(), L("c20-code-changed"))
		verifAssert(ce.Code.GRPCCode() == s.code.GRPCCode(), L("c20-grpc-category-changed"))
	}
	verifAssert(cerrors.Is(e, vSentinel) == s.sentinel, L("c20-sentinel-lost"))
	verifAssert(cerrors.Is(e, context.Canceled) == s.canceled, L("c20-canceled-lost"))
	verifAssert(ExitCode(e) == refExit(s), L("c20-exit-code"))
	// marking fatal twice changes nothing; marking keeps code
	f := cerrors.FatalError(e)
	verifAssert(cerrors.IsFatalError(f), L("c20-fatal-not-fatal"))
	_, ok2 := conduiterr.Get(f)
	verifAssert(ok2 == s.hasCode, L("c20-fatal-mark-changes-code"))
	verifObserve("class", s.fatal, s.hasCode, s.canceled, ExitCode(e))
	verifCover("end")
}

// VerifC20RoundTrip: a coded error survives ToStatus/FromStatus with the same code.
func VerifC20RoundTrip() {
	b := &vBuilder{budget: verifParam("nodes", 2)}
	e, s := b.build()
	ce, ok := conduiterr.Get(e)
	if !ok {
		verifCover("uncoded")
		return
	}
	st := conduiterr.ToStatus(ce)
	back := conduiterr.FromStatus(st)
	verifAssert(back.Code.Reason() == s.code.Reason(), "c20-roundtrip-code")
	verifAssert(back.Code.GRPCCode() == s.code.GRPCCode(), "c20-roundtrip-grpc")
	verifAssert(st.Code() == s.code.GRPCCode(), "c20-status-code")
	verifCover("coded")
}
