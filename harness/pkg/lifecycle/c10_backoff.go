//go:build verif

package lifecycle

// C10: back-off arithmetic of the recovery path with symbolic configuration.

import (
	"context"
	"sync/atomic"
	"time"

	"github.com/conduitio/conduit-commons/csync"
	"github.com/conduitio/conduit/pkg/foundation/cerrors"
	"github.com/conduitio/conduit/pkg/foundation/log"
	"github.com/conduitio/conduit/pkg/pipeline"
	"github.com/jpillora/backoff"
)

func init() {
	verifRegister("VerifC10BackoffBounds", VerifC10BackoffBounds)
	verifRegister("VerifC10RetryLimit", VerifC10RetryLimit)
}

// VerifC10BackoffBounds: for every valid configuration (0 < min <= max,
// factor > 0), every attempt number and every jitter value, the delay computed
// by toBackoff().ForAttempt lies within [min, max].
func VerifC10BackoffBounds() {
	cfg := ErrRecoveryCfg{
		MinDelay:      time.Duration(verifInt64("min")),
		MaxDelay:      time.Duration(verifInt64("max")),
		BackoffFactor: verifInt("factor"),
	}
	// what pkg/conduit config validation enforces
	verifAssume(cfg.MinDelay > 0)
	verifAssume(cfg.MaxDelay > 0)
	verifAssume(cfg.MinDelay <= cfg.MaxDelay)
	verifAssume(cfg.BackoffFactor > 0)
	attempt := verifInt64("attempt")
	verifAssume(attempt >= 1)
	b := cfg.toBackoff()
	d := b.ForAttempt(float64(attempt))
	verifAssert(d >= cfg.MinDelay, "c10-backoff-below-min-delay")
	verifAssert(d <= cfg.MaxDelay, "c10-backoff-above-max-delay")
	verifCover("end")
}

// VerifC10RetryLimit: StartWithBackoff with an arbitrary attempt counter:
// beyond MaxRetries the result is the fatal "cannot recover" error and no
// restart is attempted; otherwise it waits (here: is cancelled while waiting).
func VerifC10RetryLimit() {
	maxRetries := verifInt64("maxRetries")
	verifAssume(maxRetries >= -1)
	pre := verifInt64("attemptsSoFar")
	verifAssume(pre >= 0)
	verifAssume(pre < 1<<40)
	cfg := ErrRecoveryCfg{MinDelay: time.Millisecond, MaxDelay: time.Second, BackoffFactor: 2, MaxRetries: maxRetries, MaxRetriesWindow: time.Second}
	s := &Service{logger: log.Nop(), errRecoveryCfg: &cfg, runningPipelines: csync.NewMap[string, *runnablePipeline](), terminalErrors: csync.NewMap[string, error]()}
	rp := &runnablePipeline{pipeline: &pipeline.Instance{ID: "pl"}, backoff: cfg.toBackoff(), recoveryAttempts: &atomic.Int64{}}
	rp.recoveryAttempts.Store(pre)
	ctx, cancel := context.WithCancel(context.Background())
	cancel()
	err := s.StartWithBackoff(ctx, rp)
	if maxRetries != InfiniteRetriesErrRecovery && pre+1 > maxRetries {
		verifAssert(cerrors.Is(err, pipeline.ErrPipelineCannotRecover), "c10-retry-limit-not-enforced")
		verifAssert(cerrors.IsFatalError(err), "c10-exhausted-retries-not-fatal")
		verifCover("exhausted")
	} else {
		verifAssert(cerrors.Is(err, context.Canceled), "c10-retry-refused-within-limit")
		verifAssert(rp.recoveryAttempts.Load() == pre+1, "c10-attempt-not-counted")
		verifCover("waiting")
	}
}

// verifStubForAttempt replaces backoff.ForAttempt in VerifC10RetryLimit under
// the engine (the delay itself is the subject of VerifC10BackoffBounds).
func verifStubForAttempt(b *backoff.Backoff, attempt float64) time.Duration { return time.Millisecond }
