//go:build verif

package stream

// Thin exported wrappers around the unexported DLQ window so that the parity
// harness (package dlqparity) can execute both engines' real implementations.

func VerifNewWindow(size, threshold int) *dlqWindow { return newDLQWindow(size, threshold) }
func VerifWindowAck(w *dlqWindow)                   { w.Ack() }
func VerifWindowNack(w *dlqWindow) bool             { return w.Nack() }
func VerifWindowCounts(w *dlqWindow) (nacks, acks int) {
	return w.nackCount, w.ackCount
}
