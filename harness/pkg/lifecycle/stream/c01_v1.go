//go:build verif

package stream

import "github.com/conduitio/conduit/pkg/foundation/cerrors"

func init() {
	verifRegister("VerifV1Pipeline", VerifV1Pipeline)
	verifRegister("VerifV1Shapes", VerifV1Shapes)
	verifRegister("VerifV1Proc", VerifV1Proc)
}

func sDLQChoice() (int, int) {
	size := verifConcrete(verifChoice("dlqsize", 3))
	th := verifInt("dlqth")
	verifAssume(th >= 0)
	if size > 0 {
		verifAssume(th < size)
	}
	return size, th
}

// VerifV1Pipeline: K records through the real v1 nodes with M destinations,
// per-record ack/nack, DLQ write failures, and a graceful stop once the source
// is exhausted.
func VerifV1Pipeline() {
	K := verifParam("K", 2)
	M := verifParam("M", 2)
	size, th := sDLQChoice()
	stopAfter := verifConcrete(verifChoice("stopAfter", K+1))
	p := buildPipeline(sCfg{K: K, M: M, dlqSize: size, dlqTh: th, dlqFail: verifParam("dlqfail", 1) == 1, stopAfter: stopAfter})
	p.start()
	// graceful stop at a chosen instant of the record flow: the source reports
	// its last position and the nodes drain
	select {
	case <-p.w.src.served:
	case <-p.ctx.Done():
	}
	stopErr := p.src.Stop(p.ctx, nil)
	err := p.wait()
	_ = stopErr
	clean := err == nil || cerrors.Is(err, errVerifNone)
	p.w.checkEnd(err == nil && stopErr == nil)
	_ = clean
	verifObserve("stopped-with-error", err != nil)
	if err == nil {
		verifCover("clean")
	} else {
		verifCover("failed")
	}
}

var errVerifNone = cerrors.New("none")

// VerifV1Shapes: malformed destination replies in the default engine.
func VerifV1Shapes() {
	K := verifParam("K", 2)
	p := buildPipeline(sCfg{K: K, M: 1, dlqSize: 0, dlqTh: 0, badDest: true, stopAfter: K})
	p.start()
	select {
	case <-p.w.src.served:
	case <-p.ctx.Done():
	}
	_ = p.src.Stop(p.ctx, nil)
	err := p.wait()
	p.w.checkEnd(false)
	if err == nil {
		verifCover("clean")
	} else {
		verifCover("failed")
	}
}

// VerifV1Proc: a processor stage (optionally W parallel workers) in front of
// the fan-out: results single / filter / error and the shapes the default
// engine refuses (position change, fan-out result, wrong result count).
func VerifV1Proc() {
	K := verifParam("K", 2)
	M := verifParam("M", 1)
	size, th := sDLQChoice()
	kinds := []int{spSingle, spFilter, spError}
	if verifParam("badshapes", 0) == 1 {
		kinds = []int{spSingle, spFilter, spError, spRepos, spMulti, spNone, spTwo}
	}
	p := buildPipeline(sCfg{K: K, M: M, dlqSize: size, dlqTh: th, stopAfter: K, procKinds: kinds, parallel: verifParam("workers", 0)})
	p.start()
	select {
	case <-p.w.src.served:
	case <-p.ctx.Done():
	}
	stopErr := p.src.Stop(p.ctx, nil)
	err := p.wait()
	p.w.checkEnd(err == nil && stopErr == nil)
	verifObserve("stopped-with-error", err != nil)
	if err == nil {
		verifCover("clean")
	} else {
		verifCover("failed")
	}
}
