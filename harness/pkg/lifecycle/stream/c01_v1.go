//go:build verif

package stream

import (
	"context"
	"sync"

	"github.com/conduitio/conduit-commons/opencdc"
	"github.com/conduitio/conduit/pkg/foundation/cerrors"
	"github.com/conduitio/conduit/pkg/foundation/metrics"
	"github.com/conduitio/conduit/pkg/foundation/log"
)

func init() {
	verifRegister("VerifV1Pipeline", VerifV1Pipeline)
	verifRegister("VerifV1Shapes", VerifV1Shapes)
	verifRegister("VerifV1Proc", VerifV1Proc)
	verifRegister("VerifV1FanoutOrder", VerifV1FanoutOrder)
	verifRegister("VerifV1BatchedAcks", VerifV1BatchedAcks)
	verifRegister("VerifV1AckGap", VerifV1AckGap)
	verifRegister("VerifV1NackOrder", VerifV1NackOrder)
}

func sDLQChoice() (int, int) {
	size := verifConcrete(verifChoice("dlqsize", 3))
	th := verifInt("dlqth")
	verifAssume(th >= 0)
	if size > 0 {
		verifAssume(th < size)
	}
	return size, th
}

// VerifV1Pipeline: K records through the real v1 nodes with M destinations,
// per-record ack/nack, DLQ write failures, and a graceful stop once the source
// is exhausted.
func VerifV1Pipeline() {
	K := verifParam("K", 2)
	M := verifParam("M", 2)
	size, th := sDLQChoice()
	stopAfter := verifConcrete(verifChoice("stopAfter", K+1))
	p := buildPipeline(sCfg{K: K, M: M, dlqSize: size, dlqTh: th, dlqFail: verifParam("dlqfail", 1) == 1, stopAfter: stopAfter})
	p.start()
	// graceful stop at a chosen instant of the record flow: the source reports
	// its last position and the nodes drain
	select {
	case <-p.w.src.served:
	case <-p.ctx.Done():
	}
	stopErr := p.src.Stop(p.ctx, nil)
	err := p.wait()
	_ = stopErr
	clean := err == nil || cerrors.Is(err, errVerifNone)
	p.w.checkEnd(err == nil && stopErr == nil)
	_ = clean
	if stopAfter == K {
		// (with an earlier stop, whether a later record is still read - and can
		// still be rejected - depends on the schedule: not an observation)
		verifObserve("stopped-with-error", err != nil)
	}
	if err == nil {
		verifCover("clean")
	} else {
		verifCover("failed")
	}
}

var errVerifNone = cerrors.New("none")

// VerifV1NackOrder (C04): the real SourceAckerNode with the real DLQHandlerNode
// behind it (unlimited window), K messages registered in read order, then
// completed from K different goroutines - message `failed` is rejected (and
// dead-lettered), the others are accepted - in every order and under every
// schedule within the delay bound. The source sees the acknowledgments in read
// order, each exactly once (oracle in the fake source).
func VerifV1NackOrder() {
	K := verifParam("K", 2)
	w := &sWorld{K: K, filtered: map[int]bool{}, procErr: map[int]bool{}}
	w.src = &sSource{w: w, stopCh: make(chan struct{}), served: make(chan struct{}), ackYield: true}
	w.dlq = &sDLQ{w: w, written: map[int]int{}}
	dlqNode := &DLQHandlerNode{Name: "dlq", Handler: w.dlq, WindowSize: 0, WindowNackThreshold: 0,
		Timer: sTimer{}, Histogram: metrics.NewRecordBytesHistogram(sHist{})}
	dlqNode.Add(1) // as the lifecycle service does per source
	in := make(chan *Message)
	feeder := &sFeeder{out: in}
	acker := &SourceAckerNode{Name: "src-acker", Source: w.src, DLQHandlerNode: dlqNode}
	acker.Sub(feeder.Pub())
	out := acker.Pub()
	SetLogger(dlqNode, log.Nop())
	SetLogger(acker, log.Nop())
	ctx, cancel := context.WithCancel(context.Background())
	defer cancel()
	var nodes sync.WaitGroup
	for _, n := range []Node{dlqNode, acker} {
		nodes.Add(1)
		go func(n Node) { defer nodes.Done(); _ = n.Run(ctx) }(n)
	}
	failed := verifConcrete(verifChoice("failed", K))
	msgs := make([]*Message, K)
	for i := 0; i < K; i++ {
		m := &Message{Ctx: ctx, Record: opencdc.Record{Position: sPos(i), Operation: opencdc.OperationCreate, Metadata: opencdc.Metadata{}}}
		in <- m
		msgs[i] = <-out // registered by the acker, now "in flight" downstream
	}
	var done sync.WaitGroup
	for i := K - 1; i >= 0; i-- { // later records complete first unless the schedule says otherwise
		done.Add(1)
		go func(i int) {
			defer done.Done()
			if i == failed {
				w.mu.Lock()
				w.procErr[i] = true
				w.mu.Unlock()
				_ = msgs[i].Nack(cerrors.New("verif: rejected"), "downstream")
			} else {
				w.mu.Lock()
				w.ackedDownstream(i)
				w.mu.Unlock()
				_ = msgs[i].Ack()
			}
		}(i)
	}
	done.Wait()
	close(in)
	nodes.Wait()
	w.mu.Lock()
	verifAssert(len(w.src.acked) == K, "c04-record-left-unacknowledged")
	verifAssert(w.dlq.written[failed] == 1, "c07-rejected-record-not-dead-lettered-once")
	w.mu.Unlock()
	verifObserve("acked", K)
	verifCover("clean")
}

// VerifV1AckGap (C01/C09): a destination whose multi-ack response leaves one
// written record out (it was never confirmed) while confirming later ones. The
// engine may stop, but it must not acknowledge the unconfirmed record to the
// source (oracle in the fake source), and it must not hang.
func VerifV1AckGap() {
	K := verifParam("K", 3)
	p := buildPipeline(sCfg{K: K, M: 1, dlqSize: 0, dlqTh: 0, stopAfter: K, ackOnly: true, batchAcks: true, ackGap: true})
	p.start()
	select {
	case <-p.w.src.served:
	case <-p.ctx.Done():
	}
	_ = p.src.Stop(p.ctx, nil)
	err := p.wait()
	p.w.checkEnd(false)
	verifObserve("gap", K)
	if err == nil {
		verifCover("clean")
	} else {
		verifCover("stopped")
	}
}

// VerifV1BatchedAcks (C09): a destination whose ack responses cover several
// records at once (every record written so far), whatever the acker node has
// queued at that moment: all records end acknowledged and the pipeline stops.
func VerifV1BatchedAcks() {
	K := verifParam("K", 3)
	p := buildPipeline(sCfg{K: K, M: 1, dlqSize: 0, dlqTh: 0, stopAfter: K, ackOnly: true, batchAcks: true})
	p.start()
	select {
	case <-p.w.src.served:
	case <-p.ctx.Done():
	}
	stopErr := p.src.Stop(p.ctx, nil)
	// (if the stop never completes the run is reported as a hang, which counts for
	// C09 and, through hang_properties, for C06)
	err := p.wait()
	p.w.checkEnd(err == nil && stopErr == nil)
	verifAssert(err == nil, "c09-batched-acks-broke-the-pipeline")
	verifAssert(err == nil, "c06-graceful-stop-of-healthy-pipeline-failed")
	p.w.mu.Lock()
	verifAssert(len(p.w.src.acked) == K, "c09-record-left-unacknowledged")
	p.w.mu.Unlock()
	verifObserve("acked", K)
	verifCover("clean")
}

// VerifV1FanoutOrder: the real FanoutNode alone, fed K messages of either
// operation kind, M consumers that receive and acknowledge, under pre-emptive
// schedules: every consumer receives the messages in the order they were fed,
// and the original message is acknowledged only after every clone was.
func VerifV1FanoutOrder() {
	K := verifParam("K", 2)
	M := verifParam("M", 2)
	in := make(chan *Message)
	fan := &FanoutNode{Name: "fanout"}
	fan.Sub(in)
	outs := make([]<-chan *Message, M)
	for m := range outs {
		outs[m] = fan.Pub()
	}
	ctx, cancel := context.WithCancel(context.Background())
	defer cancel()
	var mu sync.Mutex
	got := make([][]int, M)
	ackedClones := make([]int, K)
	var wg sync.WaitGroup
	for m := 0; m < M; m++ {
		wg.Add(1)
		go func(m int) {
			defer wg.Done()
			for msg := range outs[m] {
				i := sIdx(msg.Record.Position)
				mu.Lock()
				if n := len(got[m]); n > 0 {
					verifAssert(got[m][n-1] < i, "c05-source-order-at-destination")
				}
				got[m] = append(got[m], i)
				ackedClones[i]++
				mu.Unlock()
				_ = msg.Ack()
			}
		}(m)
	}
	runDone := make(chan error, 1)
	go func() { runDone <- fan.Run(ctx) }()
	for i := 0; i < K; i++ {
		op := opencdc.OperationCreate
		if verifBool("snapshot") {
			op = opencdc.OperationSnapshot
		}
		msg := &Message{Ctx: ctx, Record: opencdc.Record{Position: sPos(i), Operation: op}}
		i := i
		msg.RegisterAckHandler(func(*Message) error {
			mu.Lock()
			verifAssert(ackedClones[i] == M, "c01-ack-before-confirmation")
			mu.Unlock()
			return nil
		})
		in <- msg
	}
	close(in)
	err := <-runDone
	wg.Wait()
	verifAssert(err == nil, "c05-healthy-pipeline-stopped-with-error")
	for m := 0; m < M; m++ {
		verifAssert(len(got[m]) == K, "c05-record-missing-at-destination")
	}
	verifCover("clean")
}

// VerifV1Shapes: malformed destination replies in the default engine.
func VerifV1Shapes() {
	K := verifParam("K", 2)
	p := buildPipeline(sCfg{K: K, M: 1, dlqSize: 0, dlqTh: 0, badDest: true, stopAfter: K})
	p.start()
	select {
	case <-p.w.src.served:
	case <-p.ctx.Done():
	}
	_ = p.src.Stop(p.ctx, nil)
	err := p.wait()
	p.w.checkEnd(false)
	if err == nil {
		verifCover("clean")
	} else {
		verifCover("failed")
	}
}

// VerifV1Proc: a processor stage (optionally W parallel workers) in front of
// the fan-out: results single / filter / error and the shapes the default
// engine refuses (position change, fan-out result, wrong result count).
func VerifV1Proc() {
	K := verifParam("K", 2)
	M := verifParam("M", 1)
	size, th := sDLQChoice()
	kinds := []int{spSingle, spFilter, spError}
	if verifParam("badshapes", 0) == 1 {
		kinds = []int{spSingle, spFilter, spError, spRepos, spMulti, spNone, spTwo}
	}
	p := buildPipeline(sCfg{K: K, M: M, dlqSize: size, dlqTh: th, stopAfter: K, procKinds: kinds, parallel: verifParam("workers", 0)})
	p.start()
	select {
	case <-p.w.src.served:
	case <-p.ctx.Done():
	}
	stopErr := p.src.Stop(p.ctx, nil)
	err := p.wait()
	p.w.checkEnd(err == nil && stopErr == nil)
	verifObserve("stopped-with-error", err != nil)
	if err == nil {
		verifCover("clean")
	} else {
		verifCover("failed")
	}
}
