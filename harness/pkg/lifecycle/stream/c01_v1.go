//go:build verif

package stream

import (
	"context"
	"sync"

	"github.com/conduitio/conduit-commons/opencdc"
	"github.com/conduitio/conduit/pkg/foundation/cerrors"
)

func init() {
	verifRegister("VerifV1Pipeline", VerifV1Pipeline)
	verifRegister("VerifV1Shapes", VerifV1Shapes)
	verifRegister("VerifV1Proc", VerifV1Proc)
	verifRegister("VerifV1FanoutOrder", VerifV1FanoutOrder)
	verifRegister("VerifV1BatchedAcks", VerifV1BatchedAcks)
}

func sDLQChoice() (int, int) {
	size := verifConcrete(verifChoice("dlqsize", 3))
	th := verifInt("dlqth")
	verifAssume(th >= 0)
	if size > 0 {
		verifAssume(th < size)
	}
	return size, th
}

// VerifV1Pipeline: K records through the real v1 nodes with M destinations,
// per-record ack/nack, DLQ write failures, and a graceful stop once the source
// is exhausted.
func VerifV1Pipeline() {
	K := verifParam("K", 2)
	M := verifParam("M", 2)
	size, th := sDLQChoice()
	stopAfter := verifConcrete(verifChoice("stopAfter", K+1))
	p := buildPipeline(sCfg{K: K, M: M, dlqSize: size, dlqTh: th, dlqFail: verifParam("dlqfail", 1) == 1, stopAfter: stopAfter})
	p.start()
	// graceful stop at a chosen instant of the record flow: the source reports
	// its last position and the nodes drain
	select {
	case <-p.w.src.served:
	case <-p.ctx.Done():
	}
	stopErr := p.src.Stop(p.ctx, nil)
	err := p.wait()
	_ = stopErr
	clean := err == nil || cerrors.Is(err, errVerifNone)
	p.w.checkEnd(err == nil && stopErr == nil)
	_ = clean
	if stopAfter == K {
		// (with an earlier stop, whether a later record is still read - and can
		// still be rejected - depends on the schedule: not an observation)
		verifObserve("stopped-with-error", err != nil)
	}
	if err == nil {
		verifCover("clean")
	} else {
		verifCover("failed")
	}
}

var errVerifNone = cerrors.New("none")

// VerifV1BatchedAcks (C09): a destination whose ack responses cover several
// records at once (every record written so far), whatever the acker node has
// queued at that moment: all records end acknowledged and the pipeline stops.
func VerifV1BatchedAcks() {
	K := verifParam("K", 3)
	p := buildPipeline(sCfg{K: K, M: 1, dlqSize: 0, dlqTh: 0, stopAfter: K, ackOnly: true, batchAcks: true})
	p.start()
	select {
	case <-p.w.src.served:
	case <-p.ctx.Done():
	}
	stopErr := p.src.Stop(p.ctx, nil)
	err := p.wait()
	p.w.checkEnd(err == nil && stopErr == nil)
	verifAssert(err == nil, "c09-batched-acks-broke-the-pipeline")
	p.w.mu.Lock()
	verifAssert(len(p.w.src.acked) == K, "c09-record-left-unacknowledged")
	p.w.mu.Unlock()
	verifObserve("acked", K)
	verifCover("clean")
}

// VerifV1FanoutOrder: the real FanoutNode alone, fed K messages of either
// operation kind, M consumers that receive and acknowledge, under pre-emptive
// schedules: every consumer receives the messages in the order they were fed,
// and the original message is acknowledged only after every clone was.
func VerifV1FanoutOrder() {
	K := verifParam("K", 2)
	M := verifParam("M", 2)
	in := make(chan *Message)
	fan := &FanoutNode{Name: "fanout"}
	fan.Sub(in)
	outs := make([]<-chan *Message, M)
	for m := range outs {
		outs[m] = fan.Pub()
	}
	ctx, cancel := context.WithCancel(context.Background())
	defer cancel()
	var mu sync.Mutex
	got := make([][]int, M)
	ackedClones := make([]int, K)
	var wg sync.WaitGroup
	for m := 0; m < M; m++ {
		wg.Add(1)
		go func(m int) {
			defer wg.Done()
			for msg := range outs[m] {
				i := sIdx(msg.Record.Position)
				mu.Lock()
				if n := len(got[m]); n > 0 {
					verifAssert(got[m][n-1] < i, "c05-source-order-at-destination")
				}
				got[m] = append(got[m], i)
				ackedClones[i]++
				mu.Unlock()
				_ = msg.Ack()
			}
		}(m)
	}
	runDone := make(chan error, 1)
	go func() { runDone <- fan.Run(ctx) }()
	for i := 0; i < K; i++ {
		op := opencdc.OperationCreate
		if verifBool("snapshot") {
			op = opencdc.OperationSnapshot
		}
		msg := &Message{Ctx: ctx, Record: opencdc.Record{Position: sPos(i), Operation: op}}
		i := i
		msg.RegisterAckHandler(func(*Message) error {
			mu.Lock()
			verifAssert(ackedClones[i] == M, "c01-ack-before-confirmation")
			mu.Unlock()
			return nil
		})
		in <- msg
	}
	close(in)
	err := <-runDone
	wg.Wait()
	verifAssert(err == nil, "c05-healthy-pipeline-stopped-with-error")
	for m := 0; m < M; m++ {
		verifAssert(len(got[m]) == K, "c05-record-missing-at-destination")
	}
	verifCover("clean")
}

// VerifV1Shapes: malformed destination replies in the default engine.
func VerifV1Shapes() {
	K := verifParam("K", 2)
	p := buildPipeline(sCfg{K: K, M: 1, dlqSize: 0, dlqTh: 0, badDest: true, stopAfter: K})
	p.start()
	select {
	case <-p.w.src.served:
	case <-p.ctx.Done():
	}
	_ = p.src.Stop(p.ctx, nil)
	err := p.wait()
	p.w.checkEnd(false)
	if err == nil {
		verifCover("clean")
	} else {
		verifCover("failed")
	}
}

// VerifV1Proc: a processor stage (optionally W parallel workers) in front of
// the fan-out: results single / filter / error and the shapes the default
// engine refuses (position change, fan-out result, wrong result count).
func VerifV1Proc() {
	K := verifParam("K", 2)
	M := verifParam("M", 1)
	size, th := sDLQChoice()
	kinds := []int{spSingle, spFilter, spError}
	if verifParam("badshapes", 0) == 1 {
		kinds = []int{spSingle, spFilter, spError, spRepos, spMulti, spNone, spTwo}
	}
	p := buildPipeline(sCfg{K: K, M: M, dlqSize: size, dlqTh: th, stopAfter: K, procKinds: kinds, parallel: verifParam("workers", 0)})
	p.start()
	select {
	case <-p.w.src.served:
	case <-p.ctx.Done():
	}
	stopErr := p.src.Stop(p.ctx, nil)
	err := p.wait()
	p.w.checkEnd(err == nil && stopErr == nil)
	verifObserve("stopped-with-error", err != nil)
	if err == nil {
		verifCover("clean")
	} else {
		verifCover("failed")
	}
}
