//go:build verif

package stream

// C07 (default engine): dlqWindow arithmetic against a reference that keeps
// the list of outcomes, and the inductive step from an arbitrary state.

func init() {
	verifRegister("VerifC07V1WindowSeq", VerifC07V1WindowSeq)
	verifRegister("VerifC07V1WindowStep", VerifC07V1WindowStep)
}

func VerifC07V1WindowSeq() {
	maxN := verifParam("maxN", 4)
	K := verifParam("K", 6)
	n := verifConcrete(verifChoice("size", maxN+1))
	t := verifInt("threshold")
	verifAssume(t >= 0)
	if n > 0 {
		verifAssume(t < n)
	}
	w := newDLQWindow(n, t)
	var hist []bool
	for k := 0; k < K; k++ {
		if !verifBool("nack") {
			w.Ack()
			hist = append(hist, false)
			continue
		}
		got := w.Nack()
		want := true
		if n > 0 {
			cnt := 1
			for j := 1; j < n && len(hist)-j >= 0; j++ {
				if hist[len(hist)-j] {
					cnt++
				}
			}
			want = cnt <= t
		}
		verifObserve("nack", got, want)
		verifAssert(got == want, "c07-v1-window-decision")
		if !got {
			verifAssert(!w.Nack(), "c07-v1-frozen-after-refusal")
			verifCover("refused")
			return
		}
		hist = append(hist, true)
	}
	verifCover("end")
}

func VerifC07V1WindowStep() {
	maxN := verifParam("maxN", 4)
	n := 1 + verifConcrete(verifChoice("size", maxN))
	t := verifInt("threshold")
	verifAssume(t >= 0)
	verifAssume(t < n || n == 1)
	cur := verifConcrete(verifChoice("cursor", n))
	w := &dlqWindow{window: make([]bool, n), cursor: cur, nackThreshold: t}
	nacks := 0
	for j := 0; j < n; j++ {
		b := verifBool("w")
		w.window[j] = b
		nacks += verifB2I(b)
	}
	w.nackCount = nacks
	w.ackCount = n - nacks
	verifAssume(nacks <= t)
	old := make([]bool, n)
	for j := 0; j < n; j++ {
		old[j] = w.window[(cur+1+j)%n]
	}
	nacked := verifBool("nacked")
	ok := true
	if nacked {
		ok = w.Nack()
	} else {
		w.Ack()
	}
	hist := append(old, nacked)
	cnt := 0
	for q := 1; q <= n; q++ {
		cnt += verifB2I(hist[len(hist)-q])
	}
	if nacked {
		verifAssert(ok == (cnt <= t), "c07-v1-step-decision")
	}
	verifAssert(w.cursor >= 0 && w.cursor < n, "c07-v1-cursor-range")
	pc := 0
	for j := 0; j < n; j++ {
		pc += verifB2I(w.window[j])
	}
	verifAssert(w.nackCount == pc, "c07-v1-nackCount-is-popcount")
	verifAssert(w.ackCount == n-pc, "c07-v1-ackCount")
	for j := 0; j < n; j++ {
		verifAssert(w.window[(w.cursor+1+j)%n] == hist[len(hist)-n+j], "c07-v1-ring-content")
	}
	if ok {
		verifCover("accepted")
	} else {
		verifCover("refused")
	}
}
