//go:build verif

package stream

// C13: live processor reconfiguration on a running default-engine pipeline.

import (
	"context"
	"time"

	"github.com/conduitio/conduit/pkg/foundation/cerrors"
)

func init() {
	verifRegister("VerifC13Reconfigure", VerifC13Reconfigure)
	verifRegister("VerifC12Stopper", VerifC12Stopper)
	verifRegister("VerifC13DuringStop", VerifC13DuringStop)
	verifRegister("VerifC13CancelMidOpen", VerifC13CancelMidOpen)
}

// VerifC13CancelMidOpen: request R1 has been claimed by the node and its new
// processor is being opened (slowly); a second request R2 is accepted and staged
// behind it; then R1's caller gives up. R1's swap still completes, and R2 -
// an accepted request - is applied after it: the last accepted configuration
// is the one that ends up processing records.
func VerifC13CancelMidOpen() {
	K := 2
	p := buildPipeline(sCfg{K: K, M: 1, dlqSize: 0, dlqTh: 0, stopAfter: K, pauseAt: 1, procKinds: []int{spSingle}, ackOnly: true})
	old := p.w.procs[0]
	old.version = 1
	old.stamps = map[int]int{}
	fresh := &sProc{w: p.w, id: "proc-new", version: 2, kinds: []int{spSingle}, stamps: old.stamps, openEntered: make(chan struct{}), openGate: make(chan struct{})}
	other := &sProc{w: p.w, id: "proc-other", version: 3, kinds: []int{spSingle}, stamps: old.stamps}
	p.start()
	select {
	case <-p.w.src.paused:
	case <-p.ctx.Done():
	}
	r1ctx, r1cancel := context.WithCancel(p.ctx)
	var err1, err2 error
	r1done, r2done := make(chan struct{}), make(chan struct{})
	go func() { defer close(r1done); err1 = p.procNode.Reconfigure(r1ctx, fresh) }()
	<-fresh.openEntered // the node claimed R1 and is inside Open
	go func() { defer close(r2done); err2 = p.procNode.Reconfigure(p.ctx, other) }()
	for staged := false; !staged; { // wait until R2 is staged
		p.procNode.swapMu.Lock()
		staged = p.procNode.pending != nil
		p.procNode.swapMu.Unlock()
		if !staged {
			time.Sleep(time.Millisecond)
		}
	}
	r1cancel()
	<-r1done
	close(fresh.openGate) // R1's Open completes
	<-r2done
	verifAssert(err1 != nil, "c13-cancel")
	verifAssert(err2 == nil, "c13-accepted-request-discarded")
	close(p.w.src.resume)
	select {
	case <-p.w.src.served:
	case <-p.ctx.Done():
	}
	stopErr := p.src.Stop(p.ctx, nil)
	runErr := p.wait()
	p.w.checkEnd(runErr == nil && stopErr == nil)
	p.w.mu.Lock()
	defer p.w.mu.Unlock()
	verifAssert(other.opened == 1, "c13-accepted-request-discarded")
	d := p.w.dests[0]
	for k, v := range d.versions {
		if d.writes[k] >= 1 {
			// read after both requests were answered: the last accepted configuration
			verifAssert(v == 3, "c13-record-after-switch-used-old")
		}
	}
	verifCover("end")
}

// VerifC13DuringStop: a reconfigure request (whose caller cannot be cancelled,
// as provisioning's in-place apply) lands while the pipeline is stopping or
// after the processor node has already exited. The caller must get an answer:
// either the swap was applied or an error; it is never left waiting.
func VerifC13DuringStop() {
	p := buildPipeline(sCfg{K: 1, M: 1, dlqSize: 0, dlqTh: 0, stopAfter: 1, procKinds: []int{spSingle}})
	old := p.w.procs[0]
	old.version = 1
	old.stamps = map[int]int{}
	fresh := &sProc{w: p.w, id: "proc-new", version: 2, kinds: []int{spSingle}, stamps: old.stamps}
	p.start()
	select {
	case <-p.w.src.served:
	case <-p.ctx.Done():
	}
	after := verifBool("afterNodeExit")
	var rerr error
	answered := make(chan struct{})
	request := func() {
		defer close(answered)
		rerr = p.procNode.Reconfigure(context.Background(), fresh)
	}
	if !after {
		go request()
		verifYield()
	}
	stopErr := p.src.Stop(p.ctx, nil)
	runErr := p.wait()
	if after {
		go request()
	}
	<-answered
	p.w.checkEnd(runErr == nil && stopErr == nil)
	p.w.mu.Lock()
	defer p.w.mu.Unlock()
	if rerr == nil {
		verifAssert(fresh.opened == 1, "c13-new-not-opened-once")
		verifCover("applied")
	} else {
		verifCover("refused")
	}
}

// VerifC12Stopper: forceStopper.start and stop in both orders and overlapped:
// afterwards the context handed to the connector is cancelled.
func VerifC12Stopper() {
	var f forceStopper
	order := verifConcrete(verifChoice("order", 3))
	var ctx context.Context
	var cancel context.CancelFunc
	switch order {
	case 0:
		ctx, cancel = f.start()
		f.stop()
	case 1:
		f.stop()
		ctx, cancel = f.start()
	default:
		done := make(chan struct{})
		go func() {
			defer close(done)
			f.stop()
		}()
		ctx, cancel = f.start()
		<-done
	}
	verifAssert(ctx.Err() != nil, "c12-force-stop-did-not-cancel-connector-context")
	cancel()
	f.stop() // a second force stop is harmless
	verifCover("end")
}

func VerifC13Reconfigure() {
	K := verifParam("K", 3)
	pauseAt := verifConcrete(verifChoice("pauseAt", K+1)) // 0: reconfigure races the record flow
	p := buildPipeline(sCfg{K: K, M: 1, dlqSize: 0, dlqTh: 0, stopAfter: K, pauseAt: pauseAt, procKinds: []int{spSingle}})
	old := p.w.procs[0]
	old.version = 1
	old.stamps = map[int]int{}
	openFails := verifBool("newOpenFails")
	second := verifBool("secondRequest")
	cancelFirst := verifBool("cancelFirst")
	fresh := &sProc{w: p.w, id: "proc-new", version: 2, kinds: []int{spSingle}, stamps: old.stamps, openFail: openFails}
	p.start()
	if pauseAt > 0 {
		select {
		case <-p.w.src.paused:
		case <-p.ctx.Done():
		}
	}
	rctx, rcancel := context.WithCancel(p.ctx)
	if cancelFirst {
		rcancel()
	}
	var secondErr error
	secondDone := make(chan struct{})
	if second {
		other := &sProc{w: p.w, id: "proc-other", version: 3, kinds: []int{spSingle}, stamps: old.stamps}
		go func() {
			defer close(secondDone)
			secondErr = p.procNode.Reconfigure(p.ctx, other)
		}()
	} else {
		close(secondDone)
	}
	err := p.procNode.Reconfigure(rctx, fresh)
	rcancel()
	<-secondDone
	if pauseAt > 0 {
		close(p.w.src.resume)
	}
	select {
	case <-p.w.src.served:
	case <-p.ctx.Done():
	}
	stopErr := p.src.Stop(p.ctx, nil)
	runErr := p.wait()
	p.w.checkEnd(runErr == nil && stopErr == nil)

	w := p.w
	w.mu.Lock()
	defer w.mu.Unlock()
	d := w.dests[0]
	// every record was processed by exactly one configuration, versions never go back
	verifAssert(len(d.versions) == len(d.writes), "c13-record-without-version")
	for k := 1; k < len(d.versions); k++ {
		verifAssert(d.versions[k-1] <= d.versions[k], "c13-old-configuration-after-new")
	}
	if runErr == nil && stopErr == nil {
		verifAssert(len(d.writes) == K, "c13-record-dropped")
	}
	if !second && !cancelFirst {
		if openFails {
			verifAssert(err != nil, "c13-failed-open-not-reported")
			for _, v := range d.versions {
				verifAssert(v == 1, "c13-new-configuration-used-after-failed-open")
			}
			verifAssert(old.tornDown <= 1, "c13-old-torn-down-twice")
			verifAssert(fresh.tornDown == 1, "c13-unopened-new-processor-not-released")
			verifCover("open-failed")
		} else if err == nil {
			verifAssert(fresh.opened == 1, "c13-new-not-opened-once")
			verifAssert(old.tornDown == 1, "c13-old-not-torn-down-once")
			if pauseAt > 0 {
				// the request returned before the source handed out record pauseAt:
				// every later record must see the new configuration (records read
				// earlier may still be in flight and may see either)
				for k, v := range d.versions {
					if d.writes[k] >= pauseAt {
						verifAssert(v == 2, "c13-record-after-switch-used-old")
					}
				}
			}
			verifCover("swapped")
		}
	}
	if second && secondErr == nil && err == nil && !cancelFirst {
		// two accepted requests: both applied in some order; at most one is current
		verifCover("both-applied")
	}
	if second && (secondErr != nil || err != nil) {
		verifCover("second-refused-or-failed")
	}
	if cancelFirst && err != nil {
		verifAssert(cerrors.Is(err, context.Canceled) || err != nil, "c13-cancel")
		verifCover("cancelled")
	}
	_ = runErr
}
