//go:build verif

package stream

// A small v1 pipeline built from the real nodes: SourceNode -> SourceAckerNode
// -> FanoutNode -> M x (DestinationNode -> DestinationAckerNode), plus the
// DLQHandlerNode; every node runs in its own goroutine as in the lifecycle
// service. Connectors and the DLQ handler are fakes with symbolic behaviour.

import (
	"context"
	"strconv"
	"sync"
	"time"

	"github.com/conduitio/conduit-commons/opencdc"
	sdk "github.com/conduitio/conduit-processor-sdk"
	"github.com/conduitio/conduit/pkg/connector"
	"github.com/conduitio/conduit/pkg/foundation/cerrors"
	"github.com/conduitio/conduit/pkg/foundation/log"
	"github.com/conduitio/conduit/pkg/foundation/metrics"
)

func sPos(i int) opencdc.Position { return opencdc.Position("p" + strconv.Itoa(i)) }

func sIdx(p opencdc.Position) int {
	s := string(p)
	if len(s) < 2 || s[0] != 'p' {
		return -1
	}
	n, err := strconv.Atoi(s[1:])
	if err != nil {
		return -1
	}
	return n
}

type sTimer struct{}

func (sTimer) Update(time.Duration)  {}
func (sTimer) UpdateSince(time.Time) {}

type sHist struct{}

func (sHist) Observe(float64) {}

type sWorld struct {
	mu        sync.Mutex
	K         int
	src       *sSource
	dests     []*sDest
	dlq       *sDLQ
	dlqSize   int
	dlqTh     int
	cancelled bool         // the run was cut short from outside (force stop / injected failure)
	directAcked map[int]bool // unit harnesses: record confirmed downstream without destination nodes
	filtered  map[int]bool // a processor filtered the record out
	procErr   map[int]bool // a processor rejected the record
	procs     []*sProc
}

// ---- processor ----

const (
	spSingle = iota
	spFilter
	spError
	spRepos // single record with a changed position (refused by the default engine)
	spMulti // fan-out result (refused by the default engine)
	spNone  // no result at all
	spTwo   // two results for one record
	spNumKinds
)

type sProc struct {
	w        *sWorld
	id       string
	version  int
	kinds    []int
	opened   int
	tornDown int
	openFail bool
	stamps   map[int]int // record index -> version that processed it
	// a slow Open: entered is closed when Open starts, Open returns once gate is closed
	openEntered chan struct{}
	openGate    chan struct{}
	kindPlan    map[int]int // fixed result kind per record index (nil: chosen)
}

func (p *sProc) Open(ctx context.Context) error {
	if p.openGate != nil {
		close(p.openEntered)
		select {
		case <-p.openGate:
		case <-ctx.Done():
			return ctx.Err()
		}
	}
	p.w.mu.Lock()
	defer p.w.mu.Unlock()
	if p.openFail {
		return cerrors.New("verif: processor open failed")
	}
	p.opened++
	return nil
}
func (p *sProc) Teardown(context.Context) error {
	p.w.mu.Lock()
	p.tornDown++
	p.w.mu.Unlock()
	return nil
}
func (p *sProc) Process(ctx context.Context, recs []opencdc.Record) []sdk.ProcessedRecord {
	w := p.w
	w.mu.Lock()
	defer w.mu.Unlock()
	out := make([]sdk.ProcessedRecord, 0, len(recs))
	for _, r := range recs {
		i := sIdx(r.Position)
		kind := spSingle
		if p.kindPlan != nil {
			kind = p.kindPlan[i]
		} else if len(p.kinds) > 1 {
			// named per record: with parallel workers the call order is a schedule
			// detail, the outcome chosen for a record must not depend on it
			kind = p.kinds[verifConcrete(verifChoice(p.id+".kind.r"+strconv.Itoa(i), len(p.kinds)))]
		}
		if p.stamps != nil {
			_, twice := p.stamps[i]
			verifAssert(!twice, "c13-record-processed-twice")
			p.stamps[i] = p.version
		}
		switch kind {
		case spSingle:
			c := r.Clone()
			c.Metadata["version"] = strconv.Itoa(p.version)
			out = append(out, sdk.SingleRecord(c))
		case spFilter:
			w.filtered[i] = true
			out = append(out, sdk.FilterRecord{})
		case spError:
			w.procErr[i] = true
			out = append(out, sdk.ErrorRecord{Error: cerrors.New("verif: processor rejected p" + strconv.Itoa(i))})
		case spRepos:
			w.procErr[i] = true
			c := r.Clone()
			c.Position = opencdc.Position("x" + strconv.Itoa(i))
			out = append(out, sdk.SingleRecord(c))
		case spMulti:
			w.procErr[i] = true
			out = append(out, sdk.MultiRecord{r.Clone(), r.Clone()})
		case spNone:
			w.procErr[i] = true
		case spTwo:
			w.procErr[i] = true
			out = append(out, sdk.SingleRecord(r), sdk.SingleRecord(r))
		}
	}
	return out
}

// ---- source ----

type sSource struct {
	w         *sWorld
	next      int
	acked     []int
	opened    int
	tornDown  int
	stopped   bool
	stopCh    chan struct{}
	ackFail   bool
	stopAfter int           // the harness asks for a stop once this many records were read
	served    chan struct{} // closed when stopAfter records have been handed out
	pauseAt   int           // >0: Read blocks before handing out record pauseAt until resume is closed
	paused    chan struct{} // closed when the source reached pauseAt
	resume    chan struct{}
	symOps    bool
	ackYield  bool // a scheduling point at the start of Ack (a slow connector)
}

// sFeeder is a minimal upstream node: it publishes what the harness sends.
type sFeeder struct{ out chan *Message }

func (f *sFeeder) Pub() <-chan *Message { return f.out }

// ackedDownstream records that every destination confirmed record i (unit
// harnesses without destination nodes).
func (w *sWorld) ackedDownstream(i int) {
	if w.directAcked == nil {
		w.directAcked = map[int]bool{}
	}
	w.directAcked[i] = true
}

func (s *sSource) ID() string           { return "src" }
func (s *sSource) Errors() <-chan error { return nil }
func (s *sSource) Open(context.Context) error {
	s.w.mu.Lock()
	s.opened++
	s.w.mu.Unlock()
	return nil
}
func (s *sSource) Teardown(context.Context) error {
	s.w.mu.Lock()
	defer s.w.mu.Unlock()
	s.tornDown++
	return nil
}
func (s *sSource) Stop(context.Context) (opencdc.Position, error) {
	s.w.mu.Lock()
	defer s.w.mu.Unlock()
	s.stopped = true
	if s.next == 0 {
		return nil, nil
	}
	return sPos(s.next - 1), nil
}
func (s *sSource) Read(ctx context.Context) ([]opencdc.Record, error) {
	s.w.mu.Lock()
	if s.pauseAt > 0 && s.next == s.pauseAt && s.paused != nil {
		p := s.paused
		s.paused = nil
		close(p)
		s.w.mu.Unlock()
		select {
		case <-s.resume:
		case <-ctx.Done():
			return nil, ctx.Err()
		}
		s.w.mu.Lock()
	}
	if s.next < s.w.K && !s.stopped {
		i := s.next
		s.next++
		if s.next == s.stopAfter {
			close(s.served)
		}
		s.w.mu.Unlock()
		op := opencdc.OperationCreate
		if s.symOps && verifBool("src.snapshot.r"+strconv.Itoa(i)) {
			op = opencdc.OperationSnapshot
		}
		return []opencdc.Record{{Position: sPos(i), Operation: op, Metadata: opencdc.Metadata{}, Key: opencdc.RawData("k" + strconv.Itoa(i))}}, nil
	}
	s.w.mu.Unlock()
	<-ctx.Done()
	return nil, ctx.Err()
}

// Ack carries the C01/C04/C07 oracles of the default engine.
func (s *sSource) Ack(ctx context.Context, positions []opencdc.Position) error {
	w := s.w
	if s.ackYield {
		if verifSymbolic() {
			verifYield()
		} else {
			time.Sleep(2 * time.Millisecond)
		}
	}
	w.mu.Lock()
	defer w.mu.Unlock()
	verifAssert(s.tornDown == 0, "c06-source-ack-after-teardown")
	for _, p := range positions {
		i := sIdx(p)
		verifAssert(i >= 0 && i < w.K, "c04-ack-of-unknown-position")
		verifAssert(i == len(s.acked), "c04-ack-order")
		verifAssert(w.handled(i), "c01-ack-before-confirmation")
		s.acked = append(s.acked, i)
	}
	if s.ackFail && verifBool("src.ack.fail") {
		return cerrors.New("verif: source ack failed")
	}
	return nil
}

func (w *sWorld) handled(i int) bool {
	if w.dlq.written[i] > 0 {
		return true
	}
	if w.filtered[i] {
		return true
	}
	if w.procErr[i] {
		return false
	}
	if len(w.dests) == 0 {
		return w.directAcked[i]
	}
	for _, d := range w.dests {
		if !d.acked[i] {
			return false
		}
	}
	return true
}

// ---- destination ----

const (
	smNone = iota
	smAckErr
	smEmptyReply
	smWrongPos
	smWriteErr
	smNum
)

type sDest struct {
	w        *sWorld
	id       string
	writes   []int
	versions []int // processor version stamped on each written record
	acked    map[int]bool
	nacked   map[int]bool
	pending  chan opencdc.Record
	allowMis bool
	ackOnly  bool
	nackPlan map[int]bool // fixed outcome per record index (nil: chosen)
	batchAcks bool // one Ack response confirms every record written so far
	ackGap    bool // batch mode: the first record after the head of a response is left out
	gapDone   bool
	slow     bool // answers only once the rest of the pipeline is idle
	opened   int
	tornDown int
	stops    int
}

func newSDest(w *sWorld, id string) *sDest {
	return &sDest{w: w, id: id, acked: map[int]bool{}, nacked: map[int]bool{}, pending: make(chan opencdc.Record, 16)}
}

func (d *sDest) ID() string           { return d.id }
func (d *sDest) Errors() <-chan error { return nil }
func (d *sDest) Open(context.Context) error {
	d.w.mu.Lock()
	d.opened++
	d.w.mu.Unlock()
	return nil
}
func (d *sDest) Stop(context.Context, opencdc.Position) error {
	d.w.mu.Lock()
	d.stops++
	d.w.mu.Unlock()
	return nil
}
func (d *sDest) Teardown(context.Context) error {
	d.w.mu.Lock()
	d.tornDown++
	d.w.mu.Unlock()
	return nil
}

func (d *sDest) Write(ctx context.Context, recs []opencdc.Record) error {
	w := d.w
	w.mu.Lock()
	if d.allowMis && verifBool(d.id+".write.fail") {
		w.mu.Unlock()
		return cerrors.New(d.id + ": write failed")
	}
	for _, r := range recs {
		i := sIdx(r.Position)
		verifAssert(i >= 0 && i < w.K, "c05-unknown-record-written")
		// C08: a record a processor filtered out or failed never reaches a destination
		verifAssert(!w.filtered[i], "c08-filtered-record-delivered")
		verifAssert(!w.procErr[i], "c08-failed-record-delivered")
		// C05 reads the same event as "filtered or dead-lettered records are absent"
		verifAssert(!w.filtered[i], "c05-filtered-record-written")
		verifAssert(!w.procErr[i], "c05-dead-lettered-record-written")
		for _, prev := range d.writes {
			verifAssert(prev != i, "c05-record-written-twice")
		}
		if len(d.writes) > 0 {
			verifAssert(d.writes[len(d.writes)-1] < i, "c05-source-order-at-destination")
		}
		d.writes = append(d.writes, i)
		if v, ok := r.Metadata["version"]; ok {
			n, _ := strconv.Atoi(v)
			d.versions = append(d.versions, n)
		}
	}
	w.mu.Unlock()
	for _, r := range recs {
		d.pending <- r
	}
	if d.batchAcks {
		// the write is visible to the plugin before the node forwards the message
		// to the acker: a scheduling point in between (natively: a pause wide
		// enough for the plugin to answer in between)
		if verifSymbolic() {
			verifYield()
		} else {
			time.Sleep(20 * time.Millisecond)
		}
	}
	return nil
}

func (d *sDest) Ack(ctx context.Context) ([]connector.DestinationAck, error) {
	var r opencdc.Record
	select {
	case r = <-d.pending:
	case <-ctx.Done():
		return nil, ctx.Err()
	}
	if d.slow {
		// virtual time under the engine: fires only when nothing else can run
		time.Sleep(time.Millisecond)
	}
	w := d.w
	if d.batchAcks {
		// a destination that confirms everything written so far in one response
		if !verifSymbolic() {
			if d.ackGap {
				time.Sleep(70 * time.Millisecond) // let three writes accumulate
			} else {
				time.Sleep(5 * time.Millisecond)
			}
		}
		w.mu.Lock()
		defer w.mu.Unlock()
		acks := []connector.DestinationAck{{Position: r.Position}}
		d.acked[sIdx(r.Position)] = true
		for more := true; more; {
			select {
			case r2 := <-d.pending:
				if d.ackGap && !d.gapDone {
					// a misbehaving destination: this record is silently left out of the
					// response (never confirmed), later ones are still confirmed
					d.gapDone = true
					continue
				}
				acks = append(acks, connector.DestinationAck{Position: r2.Position})
				d.acked[sIdx(r2.Position)] = true
			default:
				more = false
			}
		}
		return acks, nil
	}
	w.mu.Lock()
	defer w.mu.Unlock()
	i := sIdx(r.Position)
	if d.allowMis {
		switch verifConcrete(verifChoice(d.id+".mis", 4)) {
		case smAckErr:
			return nil, cerrors.New(d.id + ": ack stream failed")
		case smEmptyReply:
			return []connector.DestinationAck{}, nil
		case smWrongPos:
			return []connector.DestinationAck{{Position: opencdc.Position("zz")}}, nil
		}
	}
	nack := false
	if d.nackPlan != nil {
		nack = d.nackPlan[i]
	} else if !d.ackOnly {
		nack = verifBool(d.id + ".nack")
	}
	if nack {
		d.nacked[i] = true
		return []connector.DestinationAck{{Position: r.Position, Error: cerrors.New(d.id + " rejected p" + strconv.Itoa(i))}}, nil
	}
	d.acked[i] = true
	return []connector.DestinationAck{{Position: r.Position}}, nil
}

// ---- DLQ handler ----

type sDLQ struct {
	w        *sWorld
	written  map[int]int
	order    []int
	fail     bool
	opened   int
	closed   int
	attempts int
}

func (h *sDLQ) Open(context.Context) error  { h.opened++; return nil }
func (h *sDLQ) Close(context.Context) error { h.closed++; return nil }
func (h *sDLQ) Write(ctx context.Context, r opencdc.Record) error {
	w := h.w
	w.mu.Lock()
	defer w.mu.Unlock()
	h.attempts++
	// the DLQ record carries the original record, the error and the failing node
	after, ok := r.Payload.After.(opencdc.StructuredData)
	verifAssert(ok, "c07-dlq-record-payload")
	pos, _ := after["position"].([]byte)
	i := sIdx(opencdc.Position(pos))
	verifAssert(i >= 0 && i < w.K, "c07-dlq-record-carries-original")
	_, hasErr := r.Metadata[opencdc.MetadataConduitDLQNackError]
	_, hasNode := r.Metadata[opencdc.MetadataConduitDLQNackNodeID]
	verifAssert(hasErr && hasNode, "c07-dlq-record-metadata")
	// C07 window: a rejection is tolerated only while the rejections among the
	// most recent window-size outcomes, counting it, do not exceed the threshold
	verifAssert(w.dlqSize == 0 || w.nacksInWindow(i) <= w.dlqTh, "c07-nack-tolerated-beyond-threshold")
	if h.fail && verifBool("dlq.write.fail") {
		return cerrors.New("verif: DLQ write failed")
	}
	verifAssert(h.written[i] == 0, "c07-dlq-written-twice")
	if len(h.order) > 0 {
		verifAssert(h.order[len(h.order)-1] < i, "c07-dlq-source-order")
	}
	h.written[i]++
	h.order = append(h.order, i)
	return nil
}

// nacksInWindow counts the rejections among the window-size most recent
// outcomes ending with record i (which is being rejected).
func (w *sWorld) nacksInWindow(i int) int {
	n := w.dlqSize
	if w.dlqTh == 0 && n > 0 {
		n = 1
	}
	cnt := 1
	for j := i - 1; j >= 0 && j > i-n; j-- {
		if w.dlq.written[j] > 0 {
			cnt++
		}
	}
	return cnt
}

// ---- wiring and running ----

type sCfg struct {
	K, M           int
	dlqSize, dlqTh int
	badDest        bool
	dlqFail        bool
	srcAckFail     bool
	stopAfter      int
	pauseAt        int
	procKinds      []int // nil: no processor node
	parallel       int   // >0: wrap the processor in a ParallelNode with this many workers
	symOps         bool  // each record's operation is chosen (create / snapshot)
	ackOnly        bool  // destinations acknowledge everything
	batchAcks      bool  // destinations confirm everything written so far in one response
	ackGap         bool  // ... leaving one record out of a multi-ack response
	nackPlans      []map[int]bool // per destination: fixed outcome per record (nil: chosen)
	procPlan       map[int]int    // fixed processor result kind per record (nil: chosen)
}

type sPipeline struct {
	w        *sWorld
	nodes    []Node
	procNode *ProcessorNode
	src      *SourceNode
	ctx      context.Context
	cancel   context.CancelFunc
	wg       sync.WaitGroup
	mu       sync.Mutex
	errs     []error
	first    error
}

func buildPipeline(c sCfg) *sPipeline {
	w := &sWorld{K: c.K, filtered: map[int]bool{}, procErr: map[int]bool{}, dlqSize: c.dlqSize, dlqTh: c.dlqTh}
	w.src = &sSource{w: w, stopCh: make(chan struct{}), ackFail: c.srcAckFail, stopAfter: c.stopAfter, served: make(chan struct{}), symOps: c.symOps}
	if c.stopAfter == 0 {
		close(w.src.served)
	}
	if c.pauseAt > 0 {
		w.src.pauseAt, w.src.paused, w.src.resume = c.pauseAt, make(chan struct{}), make(chan struct{})
	}
	w.dlq = &sDLQ{w: w, written: map[int]int{}, fail: c.dlqFail}
	logger := log.Nop()
	dlqNode := &DLQHandlerNode{Name: "dlq", Handler: w.dlq, WindowSize: c.dlqSize, WindowNackThreshold: c.dlqTh,
		Timer: sTimer{}, Histogram: metrics.NewRecordBytesHistogram(sHist{})}
	dlqNode.Add(1) // as the lifecycle service does per source
	srcNode := &SourceNode{Name: "src", Source: w.src, PipelineTimer: sTimer{}}
	acker := &SourceAckerNode{Name: "src-acker", Source: w.src, DLQHandlerNode: dlqNode}
	acker.Sub(srcNode.Pub())
	fanout := &FanoutNode{Name: "fanout"}
	p := &sPipeline{w: w, src: srcNode}
	p.nodes = []Node{dlqNode, srcNode, acker}
	var last PubNode = acker
	if c.procKinds != nil {
		newProcNode := func(k int) *ProcessorNode {
			sp := &sProc{w: w, id: "proc", kinds: c.procKinds, kindPlan: c.procPlan}
			w.procs = append(w.procs, sp)
			return &ProcessorNode{Name: "proc-" + strconv.Itoa(k), Processor: sp, ProcessorTimer: sTimer{}}
		}
		if c.parallel > 0 {
			par := &ParallelNode{Name: "proc-parallel", NewNode: func(k int) PubSubNode { return newProcNode(k) }, Workers: c.parallel}
			par.Sub(last.Pub())
			p.nodes = append(p.nodes, par)
			last = par
		} else {
			pn := newProcNode(0)
			p.procNode = pn
			pn.Sub(last.Pub())
			p.nodes = append(p.nodes, pn)
			last = pn
		}
	}
	fanout.Sub(last.Pub())
	p.nodes = append(p.nodes, fanout)
	for m := 0; m < c.M; m++ {
		d := newSDest(w, "dest"+strconv.Itoa(m))
		d.allowMis = c.badDest
		d.ackOnly = c.ackOnly
		d.batchAcks = c.batchAcks
		d.ackGap = c.ackGap
		if m < len(c.nackPlans) {
			d.nackPlan = c.nackPlans[m]
		}
		if c.M > 1 && !c.ackOnly && len(c.nackPlans) == 0 {
			d.slow = verifBool(d.id + ".slow")
		}
		w.dests = append(w.dests, d)
		dn := &DestinationNode{Name: d.id, Destination: d, ConnectorTimer: sTimer{}}
		dn.Sub(fanout.Pub())
		dan := &DestinationAckerNode{Name: d.id + "-acker", Destination: d}
		dan.Sub(dn.Pub())
		p.nodes = append(p.nodes, dn, dan)
	}
	for _, n := range p.nodes {
		SetLogger(n, logger)
	}
	return p
}

// start runs every node in its own goroutine; the first node error cancels
// the shared context (what tomb.Kill does in the lifecycle service).
func (p *sPipeline) start() {
	p.ctx, p.cancel = context.WithCancel(context.Background())
	for _, n := range p.nodes {
		n := n
		p.wg.Add(1)
		go func() {
			defer p.wg.Done()
			err := n.Run(p.ctx)
			if err != nil {
				p.mu.Lock()
				p.errs = append(p.errs, err)
				if p.first == nil {
					p.first = err
				}
				p.mu.Unlock()
				p.cancel()
			}
		}()
	}
}

func (p *sPipeline) wait() error {
	p.wg.Wait()
	p.cancel()
	return p.first
}

// checkEnd: end-of-run accounting shared by the v1 harnesses.
func (w *sWorld) checkEnd(clean bool) {
	w.mu.Lock()
	defer w.mu.Unlock()
	for k, i := range w.src.acked {
		verifAssert(i == k, "c04-acked-prefix")
	}
	for i := 0; i < w.K; i++ {
		verifAssert(w.dlq.written[i] <= 1, "c07-dlq-more-than-once")
		if i < len(w.src.acked) {
			failed := w.procErr[i]
			for _, d := range w.dests {
				if d.nacked[i] {
					failed = true
				}
			}
			if failed {
				verifAssert(w.dlq.written[i] == 1, "c07-rejected-record-acked-without-dlq")
			}
		}
	}
	// a rejected record that was refused by the DLQ window (no write attempted)
	// must really have exceeded the threshold
	if i := len(w.src.acked); i < w.K && w.dlq.attempts == len(w.dlq.order) {
		rejected := w.procErr[i]
		for _, d := range w.dests {
			if d.nacked[i] {
				rejected = true
			}
		}
		if rejected && w.dlq.written[i] == 0 && w.dlqSize > 0 && !w.cancelled {
			verifAssert(w.nacksInWindow(i) > w.dlqTh, "c07-nack-refused-within-threshold")
		}
	}
	verifAssert(w.src.tornDown <= w.src.opened && w.src.tornDown <= 1, "c06-source-teardown-count")
	for _, d := range w.dests {
		verifAssert(d.tornDown <= 1, "c06-destination-teardown-count")
	}
	if clean {
		verifAssert(len(w.src.acked) == w.src.next, "c06-read-record-left-without-outcome")
		verifAssert(w.src.tornDown == 1, "c06-source-not-torn-down")
		for _, d := range w.dests {
			verifAssert(d.tornDown == 1, "c06-destination-not-torn-down")
		}
	}
}
