//go:build verif

package lifecycle

// Further call histories against the real lifecycle service (full stack over
// the fake plugins): transient failures inside / outside the retry window, a
// user start during the recovery back-off, a start whose status write fails.

import (
	"context"
	"time"

	"github.com/conduitio/conduit/pkg/connector"
	"github.com/conduitio/conduit/pkg/pipeline"
)

func init() {
	verifRegister("VerifLifecycleRetryWindow", VerifLifecycleRetryWindow)
	verifRegister("VerifLifecycleStartDuringBackoff", VerifLifecycleStartDuringBackoff)
	verifRegister("VerifLifecycleStatusWriteFails", VerifLifecycleStatusWriteFails)
	verifRegister("VerifLifecycleInitResume", VerifLifecycleInitResume)
	verifRegister("VerifLifecycleReconfigureCancelled", VerifLifecycleReconfigureCancelled)
}

func lSettle(virtual, real time.Duration) {
	if verifSymbolic() {
		time.Sleep(virtual)
	} else {
		time.Sleep(real)
	}
}

func lCount(w *lWorld, st pipeline.Status) int {
	w.mu.Lock()
	defer w.mu.Unlock()
	n := 0
	for _, x := range w.statuses {
		if x == st {
			n++
		}
	}
	return n
}

// VerifLifecycleRetryWindow (C10): MaxRetries = 1. A transient failure is
// recovered; a second transient failure either follows immediately (inside the
// retry window: the limit is exceeded, the pipeline degrades) or only after the
// window has passed (the first attempt no longer counts: it recovers again).
func VerifLifecycleRetryWindow() {
	w, svc := newLifecycleWorld(lCfg{K: 1, M: 1, stopAfter: 1, dlqSize: 0, dlqTh: 0, recovery: lRecovery(1)})
	w.dests["dest0"].ackAll = true
	w.src.recvFail = true // first failure: the stream breaks after the record
	beyond := verifBool("beyondWindow")
	ctx := context.Background()
	if err := svc.Start(ctx, "pl"); err != nil {
		verifFail("c10-start-failed")
	}
	w.awaitStatus(pipeline.StatusRunning, 2) // recovered once
	verifAssert(lCount(w, pipeline.StatusRecovering) == 1, "c10-transient-not-recovering")
	if beyond {
		// stay healthy for longer than back-off + window
		lSettle(time.Hour, 900*time.Millisecond)
	}
	w.src.failNow <- struct{}{} // second transient failure
	if beyond {
		w.awaitStatus(pipeline.StatusRecovering, 2)
		lSettle(time.Minute, 400*time.Millisecond)
		verifAssert(w.lastStatus() == pipeline.StatusRunning, "c10-failure-outside-retry-window-not-recovered")
		verifAssert(lCount(w, pipeline.StatusDegraded) == 0, "c10-failure-outside-retry-window-not-recovered")
		verifCover("recovered-again")
		_ = svc.StopAndWait(ctx, "pl")
	} else {
		_ = svc.WaitPipeline("pl")
		lSettle(time.Minute, 400*time.Millisecond)
		verifAssert(w.lastStatus() == pipeline.StatusDegraded, "c10-restart-beyond-max-retries")
		verifAssert(lCount(w, pipeline.StatusRunning) == 2, "c10-restart-beyond-max-retries")
		verifCover("exhausted")
	}
	w.checkReleased("c11")
}

// VerifLifecycleStartDuringBackoff (C11): a run fails transiently; while its
// recovery sits out the back-off the user starts the pipeline. The user's run
// is THE live run: the old run's recovery must not act on it, degrade it or
// report a failure for it, and stop/wait must work on it.
func VerifLifecycleStartDuringBackoff() {
	w, svc := newLifecycleWorld(lCfg{K: 1, M: 1, stopAfter: 1, dlqSize: 0, dlqTh: 0, recovery: lRecovery(3)})
	w.dests["dest0"].ackAll = true
	w.src.recvFail = true
	ctx := context.Background()
	if err := svc.Start(ctx, "pl"); err != nil {
		verifFail("c10-start-failed")
	}
	w.awaitStatus(pipeline.StatusRecovering, 1)
	startErr := svc.Start(ctx, "pl") // the user's start, during the back-off
	w.mu.Lock()
	failuresBefore := len(w.failures)
	w.mu.Unlock()
	// let the old run's back-off elapse
	lSettle(time.Minute, 800*time.Millisecond)
	if startErr == nil {
		verifAssert(w.lastStatus() == pipeline.StatusRunning, "c11-superseded-recovery-changed-live-run-status")
		w.mu.Lock()
		verifAssert(len(w.failures) == failuresBefore, "c11-failure-reported-for-healthy-run")
		w.mu.Unlock()
		verifAssert(svc.StopAndWait(ctx, "pl") == nil, "c11-live-run-cannot-be-stopped")
		verifAssert(w.lastStatus() == pipeline.StatusUserStopped, "c11-status-after-stop")
		verifCover("user-run-live")
	} else {
		// refused: then the recovery owns the restart
		lSettle(time.Minute, 400*time.Millisecond)
		verifCover("start-refused")
		if st := w.lastStatus(); st == pipeline.StatusRunning || st == pipeline.StatusRecovering {
			_ = svc.StopAndWait(ctx, "pl")
		}
	}
	w.checkReleased("c11")
}

// VerifLifecycleStatusWriteFails (C11): the store refuses the "running" status
// write of a start. Whatever Start reports, the pipeline must not be wedged:
// it can be stopped and waited for (if a run exists) and started again.
func VerifLifecycleStatusWriteFails() {
	w, svc := newLifecycleWorld(lCfg{K: 1, M: 1, stopAfter: 1, dlqSize: 0, dlqTh: 0, recovery: lRecovery(3)})
	w.dests["dest0"].ackAll = true
	w.failStatus, w.failStatusWrites = pipeline.StatusRunning, 1
	ctx := context.Background()
	startErr := svc.Start(ctx, "pl")
	verifObserve("start", startErr != nil)
	done := make(chan error, 1)
	go func() { done <- svc.StopAndWait(ctx, "pl") }()
	var stopErr error
	select {
	case stopErr = <-done:
	case <-time.After(lPick(time.Hour, 10*time.Second)):
		verifFail("c11-run-never-ends")
	}
	_ = stopErr
	waited := make(chan struct{})
	go func() { _ = svc.WaitPipeline("pl"); close(waited) }()
	select {
	case <-waited:
	case <-time.After(lPick(time.Hour, 10*time.Second)):
		verifFail("c11-run-never-ends")
	}
	lSettle(time.Minute, 300*time.Millisecond)
	st := w.lastStatus()
	verifAssert(st != pipeline.StatusRunning && st != pipeline.StatusRecovering, "c11-run-ended-but-status-running")
	// the pipeline can be started again
	w.src.stopAfter = 0
	verifAssert(svc.Start(ctx, "pl") == nil, "c11-cannot-restart-after-failed-status-write")
	verifAssert(svc.StopAndWait(ctx, "pl") == nil, "c11-live-run-cannot-be-stopped")
	verifCover("end")
	w.checkReleased("c11")
}

func lPick(virtual, real time.Duration) time.Duration {
	if verifSymbolic() {
		return virtual
	}
	return real
}

// VerifLifecycleInitResume (C03): what a restarted server does with a stored
// pipeline. The pipeline service has turned a "running" status into
// "system stopped" on load; lifecycle Init must start exactly those pipelines
// again - whoever created them (API or a configuration file) - and the source
// resumes right after the stored position. Pipelines the user stopped or that
// degraded stay stopped.
func VerifLifecycleInitResume() {
	K := verifParam("K", 2)
	w, svc := newLifecycleWorld(lCfg{K: K, M: 1, stopAfter: 0, dlqSize: 0, dlqTh: 0, recovery: lRecovery(0)})
	w.dests["dest0"].ackAll = true
	stored := verifConcrete(verifChoice("stored", K+1)) - 1 // -1: nothing stored yet
	if stored >= 0 {
		w.conns["src"].State = connector.SourceState{Position: lPos(stored)}
		for i := 0; i <= stored; i++ {
			// acknowledged (and handled) by the run before the restart
			w.src.acks = append(w.src.acks, i)
		}
	}
	if verifBool("fromConfigFile") {
		w.pl.ProvisionedBy = pipeline.ProvisionTypeConfig
	} else {
		w.pl.ProvisionedBy = pipeline.ProvisionTypeAPI
	}
	status := []pipeline.Status{pipeline.StatusSystemStopped, pipeline.StatusUserStopped, pipeline.StatusDegraded}[verifConcrete(verifChoice("status", 3))]
	w.pl.SetStatus(status)
	ctx := context.Background()
	err := svc.Init(ctx)
	verifAssert(err == nil, "c03-init-failed")
	if status == pipeline.StatusSystemStopped {
		verifAssert(w.lastStatus() == pipeline.StatusRunning, "c03-running-pipeline-not-resumed-after-restart")
		<-w.src.openCh
		w.mu.Lock()
		reopen := w.src.opens[len(w.src.opens)-1]
		w.mu.Unlock()
		verifAssert(reopen == stored, "c03-reopened-with-wrong-position")
		verifAssert(svc.StopAndWait(ctx, "pl") == nil, "c11-live-run-cannot-be-stopped")
		w.mu.Lock()
		// reading resumed right after the stored position, nothing read was dropped
		for k, i := range w.src.emitted {
			verifAssert(i == stored+1+k, "c03-resumed-run-skipped-a-record")
		}
		// what reached the destination was handled and acknowledged; a record read
		// but not yet handed on when the stop arrived is read again next time
		for _, i := range w.dests["dest0"].written {
			verifAssert(w.handledLocked(i), "c03-record-after-stored-position-lost")
		}
		w.mu.Unlock()
		verifCover("resumed")
	} else {
		verifAssert(lCount(w, pipeline.StatusRunning) == 0, "c10-stopped-pipeline-started-by-init")
		verifCover("left-stopped")
	}
	w.checkReleased("c11")
}

// VerifLifecycleReconfigureCancelled (C13): lifecycle.ReconfigureProcessor on a
// running pipeline whose caller gives up while the node is already opening the
// new processor. The swap still completes: the processor that went live must
// stay usable, the next record is processed by it and delivered.
func VerifLifecycleReconfigureCancelled() {
	w, svc := newLifecycleWorld(lCfg{K: 1, M: 1, stopAfter: 1, dlqSize: 0, dlqTh: 0, recovery: lRecovery(0), withProc: true})
	w.dests["dest0"].ackAll = true
	ctx := context.Background()
	if err := svc.Start(ctx, "pl"); err != nil {
		verifFail("c13-start-failed")
	}
	<-w.src.served
	lSettle(10*time.Millisecond, 100*time.Millisecond) // record 0 went through the first processor
	cancelled := verifBool("callerGivesUp")
	w.mu.Lock()
	w.slowOpen = true
	w.mu.Unlock()
	rctx, rcancel := context.WithCancel(ctx)
	var rerr error
	rdone := make(chan struct{})
	go func() { defer close(rdone); rerr = svc.ReconfigureProcessor(rctx, "pl", "proc1") }()
	var fresh *lProcPlugin
	for fresh == nil {
		w.mu.Lock()
		if len(w.procs) >= 2 {
			fresh = w.procs[1]
		}
		w.mu.Unlock()
		if fresh == nil {
			time.Sleep(time.Millisecond)
		}
	}
	<-fresh.entered // the node claimed the request and is opening the new processor
	if cancelled {
		rcancel()
		<-rdone
	}
	close(fresh.gate)
	<-rdone
	rcancel()
	lSettle(10*time.Millisecond, 100*time.Millisecond)
	// a second record arrives after the swap
	w.mu.Lock()
	w.K = 2
	w.mu.Unlock()
	w.src.more <- struct{}{}
	lSettle(10*time.Millisecond, 200*time.Millisecond)
	if !cancelled {
		verifAssert(rerr == nil, "c13-swap-failed")
	}
	err := svc.StopAndWait(ctx, "pl")
	w.mu.Lock()
	d := w.dests["dest0"]
	verifAssert(len(d.written) == 2 && d.acked[1], "c13-record-dropped")
	if len(d.versions) == 2 {
		verifAssert(d.versions[0] == "1" && d.versions[1] == "2", "c13-record-after-switch-used-old")
	}
	verifAssert(fresh.opened == 1 && fresh.tornDown <= 1, "c13-live-processor-torn-down")
	w.mu.Unlock()
	verifAssert(err == nil, "c13-pipeline-failed-after-swap")
	verifAssert(w.lastStatus() == pipeline.StatusUserStopped, "c11-status-after-stop")
	verifObserve("reconfigured", cancelled, rerr != nil)
	verifCover("end")
}
