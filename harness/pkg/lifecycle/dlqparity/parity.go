//go:build verif

package dlqparity

// C07 engine parity: the same outcome sequence, under any batch partition for
// the arch-v2 window, leads both real implementations to the same per-record
// decisions.

import (
	"github.com/conduitio/conduit/pkg/lifecycle-poc/funnel"
	"github.com/conduitio/conduit/pkg/lifecycle/stream"
)

func init() { verifRegister("VerifC07Parity", VerifC07Parity) }

func VerifC07Parity() {
	maxN := verifParam("maxN", 3)
	K := verifParam("K", 5)
	n := verifConcrete(verifChoice("size", maxN+1))
	t := verifInt("threshold")
	verifAssume(t >= 0)
	if n > 0 {
		verifAssume(t < n)
	}
	w1 := stream.VerifNewWindow(n, t)
	w2 := funnel.VerifNewWindow(n, t)
	k := 0
	for k < K {
		nack := verifBool("nack")
		maxLen := K - k
		if maxLen > 3 {
			maxLen = 3
		}
		l := 1 + verifConcrete(verifChoice("len", maxLen))
		if !nack {
			for j := 0; j < l; j++ {
				stream.VerifWindowAck(w1)
			}
			funnel.VerifWindowAck(w2, l)
			k += l
			continue
		}
		acc1 := 0
		for j := 0; j < l; j++ {
			if !stream.VerifWindowNack(w1) {
				break
			}
			acc1++
		}
		acc2 := funnel.VerifWindowNack(w2, l)
		verifObserve("nack", l, acc1, acc2)
		verifAssert(acc1 == acc2, "c07-engines-disagree")
		if acc1 < l {
			verifCover("refused")
			return
		}
		k += l
	}
	n1, a1 := stream.VerifWindowCounts(w1)
	n2, a2 := funnel.VerifWindowCounts(w2)
	verifAssert(n1 == n2, "c07-engines-nack-count-differs")
	verifAssert(a1 == a2, "c07-engines-ack-count-differs")
	verifCover("end")
}
