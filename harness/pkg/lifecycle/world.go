//go:build verif

package lifecycle

// Full-stack world for the default engine: the real lifecycle.Service builds
// and runs the real stream nodes over real connector.Source/Destination
// instances (real Persister over a fake transactional DB); only the connector
// PLUGINS, the pipeline/connector/processor services and the database are
// fakes. The oracles of C03, C06, C10, C11 and C12 read the plugins' logs and
// the status history.

import (
	"context"
	"encoding/json"
	"strconv"
	"sync"
	"time"

	"github.com/conduitio/conduit-commons/database"
	"github.com/conduitio/conduit-commons/config"
	"github.com/conduitio/conduit-commons/opencdc"
	"github.com/conduitio/conduit-connector-protocol/pconnector"
	sdk "github.com/conduitio/conduit-processor-sdk"
	"github.com/conduitio/conduit/pkg/connector"
	"github.com/conduitio/conduit/pkg/foundation/cerrors"
	"github.com/conduitio/conduit/pkg/foundation/log"
	"github.com/conduitio/conduit/pkg/pipeline"
	connectorPlugin "github.com/conduitio/conduit/pkg/plugin/connector"
	"github.com/conduitio/conduit/pkg/plugin/processor/egress"
	"github.com/conduitio/conduit/pkg/processor"
)

func lPos(i int) opencdc.Position { return opencdc.Position("p" + strconv.Itoa(i)) }

func lIdx(p opencdc.Position) int {
	s := string(p)
	if len(s) < 2 || s[0] != 'p' {
		return -1
	}
	n, err := strconv.Atoi(s[1:])
	if err != nil {
		return -1
	}
	return n
}

type lWorld struct {
	mu         sync.Mutex
	K          int
	src        *lSrcPlugin
	dests      map[string]*lDestPlugin
	destOrder  []string
	statuses   []pipeline.Status
	statusMsg  []string
	stored     map[string][]byte
	pl         *pipeline.Instance
	conns      map[string]*connector.Instance
	persister  *connector.Persister
	failures   []FailureEvent
	starts     int
	dlqNackAll bool // every DLQ plugin rejects what it is given (DLQ write failure)
	dlqBlocks  bool // the DLQ plugin never answers
	procSvc    *processor.Service
	procs      []*lProcPlugin // every processor plugin dispensed, in order
	slowOpen   bool           // the next dispensed processor plugin opens slowly (gate)
	statusCh   chan pipeline.Status // every status write, in order (buffered)
	// failStatusWrites: how many upcoming writes of failStatus are refused by
	// the store (the in-memory status changes, as in the real pipeline service)
	failStatus       pipeline.Status
	failStatusWrites int
}

// awaitStatus blocks until the n-th write of status st has happened.
func (w *lWorld) awaitStatus(st pipeline.Status, n int) {
	for {
		w.mu.Lock()
		c := 0
		for _, x := range w.statuses {
			if x == st {
				c++
			}
		}
		w.mu.Unlock()
		if c >= n {
			return
		}
		<-w.statusCh
	}
}

// ---- database ----

type lDB struct{ w *lWorld }
type lTx struct {
	w    *lWorld
	sets map[string][]byte
}
type lTxKey struct{}

func (d *lDB) NewTransaction(ctx context.Context, update bool) (database.Transaction, context.Context, error) {
	tx := &lTx{w: d.w, sets: map[string][]byte{}}
	return tx, context.WithValue(ctx, lTxKey{}, tx), nil
}
func (d *lDB) Close() error               { return nil }
func (d *lDB) Ping(context.Context) error { return nil }
func (d *lDB) Set(ctx context.Context, key string, value []byte) error {
	if tx, ok := ctx.Value(lTxKey{}).(*lTx); ok && tx != nil {
		tx.sets[key] = value
		return nil
	}
	d.w.mu.Lock()
	d.w.stored[key] = value
	d.w.mu.Unlock()
	return nil
}
func (d *lDB) Get(ctx context.Context, key string) ([]byte, error) {
	d.w.mu.Lock()
	defer d.w.mu.Unlock()
	v, ok := d.w.stored[key]
	if !ok {
		return nil, database.ErrKeyNotExist
	}
	return v, nil
}
func (d *lDB) GetKeys(context.Context, string) ([]string, error) { return nil, nil }
func (t *lTx) Commit() error {
	t.w.mu.Lock()
	for k, v := range t.sets {
		t.w.stored[k] = v
	}
	t.w.mu.Unlock()
	return nil
}
func (t *lTx) Discard() {}

// verifStubEncode replaces (*connector.Store).encode under the engine: the
// stored document is just the source position.
func verifStubEncode(s *connector.Store, i *connector.Instance) ([]byte, error) {
	if st, ok := i.State.(connector.SourceState); ok {
		return []byte(st.Position), nil
	}
	return nil, nil
}

// ---- source plugin ----

type lSrcPlugin struct {
	w         *lWorld
	next      int // next record index to emit
	emitted   []int
	acks      []int
	opens     []int // position index handed to Open (-1 none)
	teardowns int
	stopped   bool
	streamCtx context.Context
	stopAfter int
	served    chan struct{}
	recvFail  bool // the next Recv after the records reports a stream failure (transient error)
	runs      int
	openCh    chan struct{} // one token per Open call
	failNow   chan struct{} // a token makes the idle stream report a (transient) failure
	more      chan struct{} // a token makes the idle stream look for new records (w.K grew)
	lastRun   int           // index of the last record emitted since the last Open (-1: none)
}

func (p *lSrcPlugin) Configure(context.Context, pconnector.SourceConfigureRequest) (pconnector.SourceConfigureResponse, error) {
	return pconnector.SourceConfigureResponse{}, nil
}
func (p *lSrcPlugin) Open(_ context.Context, r pconnector.SourceOpenRequest) (pconnector.SourceOpenResponse, error) {
	p.w.mu.Lock()
	defer p.w.mu.Unlock()
	i := lIdx(r.Position)
	p.opens = append(p.opens, i)
	// a (re)opened source resumes right after the position it is given
	p.next = i + 1
	p.stopped = false
	p.lastRun = -1
	select {
	case p.openCh <- struct{}{}:
	default:
	}
	return pconnector.SourceOpenResponse{}, nil
}
func (p *lSrcPlugin) Run(ctx context.Context, s pconnector.SourceRunStream) error {
	p.w.mu.Lock()
	p.streamCtx = ctx
	p.runs++
	p.w.mu.Unlock()
	return nil
}
func (p *lSrcPlugin) Stop(context.Context, pconnector.SourceStopRequest) (pconnector.SourceStopResponse, error) {
	p.w.mu.Lock()
	defer p.w.mu.Unlock()
	p.stopped = true
	if p.lastRun < 0 {
		return pconnector.SourceStopResponse{}, nil
	}
	return pconnector.SourceStopResponse{LastPosition: lPos(p.lastRun)}, nil
}
func (p *lSrcPlugin) Teardown(context.Context, pconnector.SourceTeardownRequest) (pconnector.SourceTeardownResponse, error) {
	p.w.mu.Lock()
	p.teardowns++
	p.w.mu.Unlock()
	return pconnector.SourceTeardownResponse{}, nil
}
func (p *lSrcPlugin) LifecycleOnCreated(context.Context, pconnector.SourceLifecycleOnCreatedRequest) (pconnector.SourceLifecycleOnCreatedResponse, error) {
	return pconnector.SourceLifecycleOnCreatedResponse{}, nil
}
func (p *lSrcPlugin) LifecycleOnUpdated(context.Context, pconnector.SourceLifecycleOnUpdatedRequest) (pconnector.SourceLifecycleOnUpdatedResponse, error) {
	return pconnector.SourceLifecycleOnUpdatedResponse{}, nil
}
func (p *lSrcPlugin) LifecycleOnDeleted(context.Context, pconnector.SourceLifecycleOnDeletedRequest) (pconnector.SourceLifecycleOnDeletedResponse, error) {
	return pconnector.SourceLifecycleOnDeletedResponse{}, nil
}
func (p *lSrcPlugin) NewStream() pconnector.SourceRunStream { return (*lSrcStream)(p) }

type lSrcStream lSrcPlugin

func (s *lSrcStream) Client() pconnector.SourceRunStreamClient { return s }
func (s *lSrcStream) Server() pconnector.SourceRunStreamServer { return nil }

func (s *lSrcStream) Recv() (pconnector.SourceRunResponse, error) {
	p := (*lSrcPlugin)(s)
	w := p.w
	w.mu.Lock()
	ctx := p.streamCtx
	if ctx.Err() != nil {
		w.mu.Unlock()
		return pconnector.SourceRunResponse{}, ctx.Err()
	}
	if p.next < w.K && !p.stopped {
		i := p.next
		p.next++
		p.emitted = append(p.emitted, i)
		p.lastRun = i
		if len(p.emitted) == p.stopAfter && p.served != nil {
			close(p.served)
			p.served = nil
		}
		w.mu.Unlock()
		return pconnector.SourceRunResponse{Records: []opencdc.Record{{
			Position: lPos(i), Operation: opencdc.OperationCreate, Metadata: opencdc.Metadata{}, Key: opencdc.RawData("k" + strconv.Itoa(i)),
		}}}, nil
	}
	fail := p.recvFail && !p.stopped
	if fail {
		p.recvFail = false
	}
	w.mu.Unlock()
	if fail {
		return pconnector.SourceRunResponse{}, cerrors.New("verif: source stream broke")
	}
	select {
	case <-ctx.Done():
		return pconnector.SourceRunResponse{}, ctx.Err()
	case <-p.failNow:
		return pconnector.SourceRunResponse{}, cerrors.New("verif: source stream broke (injected)")
	case <-p.more:
		return s.Recv()
	}
}

// Send receives the acknowledgments: C01/C02/C04 at the plugin boundary.
func (s *lSrcStream) Send(r pconnector.SourceRunRequest) error {
	p := (*lSrcPlugin)(s)
	w := p.w
	w.mu.Lock()
	defer w.mu.Unlock()
	verifAssert(p.teardowns < p.runs, "c06-plugin-ack-after-teardown")
	for _, pos := range r.AckPositions {
		i := lIdx(pos)
		verifAssert(i >= 0 && i < w.K, "c04-ack-of-unknown-position")
		last := -1
		if len(p.acks) > 0 {
			last = p.acks[len(p.acks)-1]
		}
		// at-least-once: after a restart already acknowledged positions may be acked again,
		// but never out of order and never past a record that is not handled
		verifAssert(i <= last+1, "c04-plugin-ack-gap")
		verifAssert(w.handledLocked(i), "c01-ack-before-confirmation")
		// C02: the position is durable before the plugin is told
		verifAssert(w.storedIdxLocked() >= i, "c02-ack-before-durable")
		if i == last+1 {
			p.acks = append(p.acks, i)
		}
	}
	return nil
}

func (w *lWorld) storedIdxLocked() int {
	raw, ok := w.stored["connector:instance:src"]
	if !ok {
		return -1
	}
	if verifSymbolic() {
		if len(raw) == 0 {
			return -1
		}
		return lIdx(opencdc.Position(raw))
	}
	return lDecodeStored(raw)
}

func (w *lWorld) handledLocked(i int) bool {
	if d := w.dests["pl-dlq"]; d != nil && d.acked[i] {
		return true
	}
	for _, id := range w.destOrder {
		if !w.dests[id].acked[i] {
			return false
		}
	}
	return true
}

// ---- destination plugin ----

type lDestPlugin struct {
	w         *lWorld
	id        string
	isDLQ     bool
	written   []int
	versions  []string // "version" metadata of the written records (stamped by the processor)
	acked     map[int]bool
	nacked    map[int]bool
	queue     chan opencdc.Record
	streamCtx context.Context
	teardowns int
	opens     int
	block     bool // never answers (unresponsive destination)
	slow      bool // answers after a pause
	sendFail  bool // the next write fails (transient stream error)
	nackAll   bool
	ackAll    bool
}

func (p *lDestPlugin) Configure(context.Context, pconnector.DestinationConfigureRequest) (pconnector.DestinationConfigureResponse, error) {
	return pconnector.DestinationConfigureResponse{}, nil
}
func (p *lDestPlugin) Open(context.Context, pconnector.DestinationOpenRequest) (pconnector.DestinationOpenResponse, error) {
	p.w.mu.Lock()
	p.opens++
	p.w.mu.Unlock()
	return pconnector.DestinationOpenResponse{}, nil
}
func (p *lDestPlugin) Run(ctx context.Context, s pconnector.DestinationRunStream) error {
	p.w.mu.Lock()
	p.streamCtx = ctx
	p.queue = make(chan opencdc.Record, 32)
	p.w.mu.Unlock()
	return nil
}
func (p *lDestPlugin) Stop(context.Context, pconnector.DestinationStopRequest) (pconnector.DestinationStopResponse, error) {
	return pconnector.DestinationStopResponse{}, nil
}
func (p *lDestPlugin) Teardown(context.Context, pconnector.DestinationTeardownRequest) (pconnector.DestinationTeardownResponse, error) {
	p.w.mu.Lock()
	p.teardowns++
	p.w.mu.Unlock()
	return pconnector.DestinationTeardownResponse{}, nil
}
func (p *lDestPlugin) LifecycleOnCreated(context.Context, pconnector.DestinationLifecycleOnCreatedRequest) (pconnector.DestinationLifecycleOnCreatedResponse, error) {
	return pconnector.DestinationLifecycleOnCreatedResponse{}, nil
}
func (p *lDestPlugin) LifecycleOnUpdated(context.Context, pconnector.DestinationLifecycleOnUpdatedRequest) (pconnector.DestinationLifecycleOnUpdatedResponse, error) {
	return pconnector.DestinationLifecycleOnUpdatedResponse{}, nil
}
func (p *lDestPlugin) LifecycleOnDeleted(context.Context, pconnector.DestinationLifecycleOnDeletedRequest) (pconnector.DestinationLifecycleOnDeletedResponse, error) {
	return pconnector.DestinationLifecycleOnDeletedResponse{}, nil
}
func (p *lDestPlugin) NewStream() pconnector.DestinationRunStream { return (*lDestStream)(p) }

type lDestStream lDestPlugin

func (s *lDestStream) Client() pconnector.DestinationRunStreamClient { return s }
func (s *lDestStream) Server() pconnector.DestinationRunStreamServer { return nil }

func (s *lDestStream) recordIdx(r opencdc.Record) int {
	if !(*lDestPlugin)(s).isDLQ {
		return lIdx(r.Position)
	}
	after, ok := r.Payload.After.(opencdc.StructuredData)
	if !ok {
		return -1
	}
	pos, _ := after["position"].([]byte)
	return lIdx(opencdc.Position(pos))
}

func (s *lDestStream) Send(r pconnector.DestinationRunRequest) error {
	p := (*lDestPlugin)(s)
	w := p.w
	w.mu.Lock()
	if p.streamCtx.Err() != nil {
		w.mu.Unlock()
		return cerrors.New("verif: destination stream closed")
	}
	if p.sendFail {
		p.sendFail = false
		w.mu.Unlock()
		return cerrors.New("verif: destination stream broke")
	}
	for _, rec := range r.Records {
		p.written = append(p.written, s.recordIdx(rec))
		p.versions = append(p.versions, rec.Metadata["version"])
	}
	q := p.queue
	w.mu.Unlock()
	for _, rec := range r.Records {
		q <- rec
	}
	return nil
}

func (s *lDestStream) Recv() (pconnector.DestinationRunResponse, error) {
	p := (*lDestPlugin)(s)
	w := p.w
	w.mu.Lock()
	ctx, q, block := p.streamCtx, p.queue, p.block
	w.mu.Unlock()
	if block {
		<-ctx.Done()
		return pconnector.DestinationRunResponse{}, ctx.Err()
	}
	var rec opencdc.Record
	select {
	case rec = <-q:
	case <-ctx.Done():
		return pconnector.DestinationRunResponse{}, ctx.Err()
	}
	if p.slow {
		// answers only after a pause: the record is in flight meanwhile
		if verifSymbolic() {
			time.Sleep(time.Millisecond)
		} else {
			time.Sleep(30 * time.Millisecond)
		}
	}
	w.mu.Lock()
	defer w.mu.Unlock()
	i := s.recordIdx(rec)
	if p.nackAll || (!p.isDLQ && !p.ackAll && verifBool(p.id+".nack")) {
		p.nacked[i] = true
		return pconnector.DestinationRunResponse{Acks: []pconnector.DestinationRunResponseAck{{Position: rec.Position, Error: "verif: rejected"}}}, nil
	}
	p.acked[i] = true
	return pconnector.DestinationRunResponse{Acks: []pconnector.DestinationRunResponseAck{{Position: rec.Position}}}, nil
}

// ---- services ----

type lDispenser struct {
	w  *lWorld
	id string
}

func (d lDispenser) DispenseSpecifier() (connectorPlugin.SpecifierPlugin, error) { return nil, nil }
func (d lDispenser) DispenseSource() (connectorPlugin.SourcePlugin, error)       { return d.w.src, nil }
func (d lDispenser) DispenseDestination() (connectorPlugin.DestinationPlugin, error) {
	d.w.mu.Lock()
	defer d.w.mu.Unlock()
	p := d.w.dests[d.id]
	if p == nil {
		p = &lDestPlugin{w: d.w, id: d.id, isDLQ: true, acked: map[int]bool{}, nacked: map[int]bool{}, nackAll: d.w.dlqNackAll, block: d.w.dlqBlocks}
		d.w.dests[d.id] = p
	}
	return p, nil
}

type lPluginService struct{ w *lWorld }

func (s lPluginService) NewDispenser(_ log.CtxLogger, name string, connectorID string) (connectorPlugin.Dispenser, error) {
	return lDispenser{w: s.w, id: connectorID}, nil
}

type lConnectorService struct{ w *lWorld }

func (s lConnectorService) Get(_ context.Context, id string) (*connector.Instance, error) {
	c, ok := s.w.conns[id]
	if !ok {
		return nil, cerrors.New("verif: connector not found")
	}
	return c, nil
}
func (s lConnectorService) Create(_ context.Context, id string, t connector.Type, plugin string, pipelineID string, cfg connector.Config, p connector.ProvisionType) (*connector.Instance, error) {
	c := &connector.Instance{ID: id, Type: t, Plugin: plugin, PipelineID: pipelineID, Config: cfg, ProvisionedBy: p}
	c.Init(log.Nop(), s.w.persister)
	return c, nil
}
func (s lConnectorService) WaitPersisted() { s.w.persister.WaitPendingWrites() }

// ---- processor plugin (only when the pipeline is built with a processor) ----

type lProcPlugin struct {
	sdk.UnimplementedProcessor
	w        *lWorld
	gen      int // 1 for the first plugin dispensed, 2 for the next ...
	opened   int
	tornDown int
	entered  chan struct{} // slow open: closed when Open starts
	gate     chan struct{} // slow open: Open returns once closed
}

func (p *lProcPlugin) Configure(context.Context, config.Config) error { return nil }
func (p *lProcPlugin) Open(ctx context.Context) error {
	if p.gate != nil {
		close(p.entered)
		select {
		case <-p.gate:
		case <-ctx.Done():
			return ctx.Err()
		}
	}
	p.w.mu.Lock()
	p.opened++
	p.w.mu.Unlock()
	return nil
}
func (p *lProcPlugin) Process(_ context.Context, recs []opencdc.Record) []sdk.ProcessedRecord {
	p.w.mu.Lock()
	dead := p.tornDown > 0
	p.w.mu.Unlock()
	out := make([]sdk.ProcessedRecord, len(recs))
	for i, r := range recs {
		if dead {
			out[i] = sdk.ErrorRecord{Error: cerrors.New("verif: processor plugin was torn down")}
			continue
		}
		c := r.Clone()
		c.Metadata["version"] = strconv.Itoa(p.gen)
		out[i] = sdk.SingleRecord(c)
	}
	return out
}
func (p *lProcPlugin) Teardown(context.Context) error {
	p.w.mu.Lock()
	p.tornDown++
	p.w.mu.Unlock()
	return nil
}

type lProcRegistry struct{ w *lWorld }

func (r lProcRegistry) NewProcessor(context.Context, string, string, egress.Policy) (sdk.Processor, error) {
	w := r.w
	w.mu.Lock()
	defer w.mu.Unlock()
	p := &lProcPlugin{w: w, gen: len(w.procs) + 1}
	if w.slowOpen {
		w.slowOpen = false
		p.entered, p.gate = make(chan struct{}), make(chan struct{})
	}
	w.procs = append(w.procs, p)
	return p, nil
}

// verifStubEncProcessor replaces (*processor.Store).encode under the engine.
func verifStubEncProcessor(s *processor.Store, i *processor.Instance) ([]byte, error) {
	return []byte("proc:" + i.ID), nil
}

type lProcessorService struct{}

func (lProcessorService) Get(context.Context, string) (*processor.Instance, error) {
	return nil, cerrors.New("verif: no processors")
}
func (lProcessorService) MakeRunnableProcessor(context.Context, *processor.Instance) (*processor.RunnableProcessor, error) {
	return nil, cerrors.New("verif: no processors")
}
func (lProcessorService) MakeRunnableProcessorForReconfigure(context.Context, *processor.Instance) (*processor.RunnableProcessor, error) {
	return nil, cerrors.New("verif: no processors")
}

type lPipelineService struct{ w *lWorld }

func (s lPipelineService) Get(context.Context, string) (*pipeline.Instance, error) {
	return s.w.pl, nil
}
func (s lPipelineService) List(context.Context) map[string]*pipeline.Instance {
	return map[string]*pipeline.Instance{s.w.pl.ID: s.w.pl}
}
func (s lPipelineService) UpdateStatus(_ context.Context, id string, st pipeline.Status, msg string) error {
	s.w.mu.Lock()
	refuse := s.w.failStatusWrites > 0 && st == s.w.failStatus
	if refuse {
		s.w.failStatusWrites--
	} else {
		s.w.statuses = append(s.w.statuses, st)
		s.w.statusMsg = append(s.w.statusMsg, msg)
	}
	s.w.mu.Unlock()
	s.w.pl.SetStatus(st)
	s.w.pl.Error = msg
	if refuse {
		return cerrors.New("verif: pipeline status not stored")
	}
	select {
	case s.w.statusCh <- st:
	default:
	}
	return nil
}

// ---- construction ----

type lCfg struct {
	K, M      int
	stopAfter int
	dlqSize   int
	dlqTh     int
	recovery  ErrRecoveryCfg
	withProc  bool // one pipeline processor "proc1"
}

func newLifecycleWorld(c lCfg) (*lWorld, *Service) {
	w := &lWorld{K: c.K, dests: map[string]*lDestPlugin{}, stored: map[string][]byte{}, conns: map[string]*connector.Instance{}, statusCh: make(chan pipeline.Status, 256)}
	w.src = &lSrcPlugin{w: w, stopAfter: c.stopAfter, served: make(chan struct{}), openCh: make(chan struct{}, 16), failNow: make(chan struct{}, 4), more: make(chan struct{}, 4)}
	if c.stopAfter == 0 {
		close(w.src.served)
		w.src.served = nil
	}
	db := &lDB{w: w}
	w.persister = connector.NewPersister(log.Nop(), db, time.Millisecond, 1)
	ids := []string{"src"}
	src := &connector.Instance{ID: "src", Type: connector.TypeSource, Plugin: "fake", PipelineID: "pl"}
	src.Init(log.Nop(), w.persister)
	w.conns["src"] = src
	for m := 0; m < c.M; m++ {
		id := "dest" + strconv.Itoa(m)
		d := &connector.Instance{ID: id, Type: connector.TypeDestination, Plugin: "fake", PipelineID: "pl"}
		d.Init(log.Nop(), w.persister)
		w.conns[id] = d
		w.dests[id] = &lDestPlugin{w: w, id: id, acked: map[int]bool{}, nacked: map[int]bool{}}
		w.destOrder = append(w.destOrder, id)
		ids = append(ids, id)
	}
	w.pl = &pipeline.Instance{ID: "pl", Config: pipeline.Config{Name: "pl"}, ConnectorIDs: ids,
		DLQ: pipeline.DLQ{Plugin: "fake-dlq", WindowSize: c.dlqSize, WindowNackThreshold: c.dlqTh}}
	w.pl.SetStatus(pipeline.StatusUserStopped)
	rec := c.recovery
	var procSvc ProcessorService = lProcessorService{}
	if c.withProc {
		w.procSvc = processor.NewService(log.Nop(), db, lProcRegistry{w})
		if _, err := w.procSvc.Create(context.Background(), "proc1", "fake-proc", processor.Parent{ID: "pl", Type: processor.ParentTypePipeline}, processor.Config{Settings: map[string]string{}, Workers: 1}, processor.ProvisionTypeAPI, ""); err != nil {
			verifFail("c13-processor-setup-failed")
		}
		w.procs = nil // the throwaway plugin Create dispenses does not count
		w.pl.ProcessorIDs = []string{"proc1"}
		procSvc = w.procSvc
	}
	svc := NewService(log.Nop(), &rec, lConnectorService{w}, procSvc, lPluginService{w}, lPipelineService{w})
	svc.OnFailure(func(e FailureEvent) {
		w.mu.Lock()
		w.failures = append(w.failures, e)
		w.mu.Unlock()
	})
	return w, svc
}

func (w *lWorld) lastStatus() pipeline.Status {
	w.mu.Lock()
	defer w.mu.Unlock()
	if len(w.statuses) == 0 {
		return 0
	}
	return w.statuses[len(w.statuses)-1]
}

// checkReleased: after a run ended every plugin that was opened was torn down
// exactly once per run and the "already running" guards are clear.
func (w *lWorld) checkReleased(label string) {
	w.mu.Lock()
	defer w.mu.Unlock()
	verifAssert(w.src.teardowns == w.src.runs, label+"-source-plugin-teardown-count")
	for _, id := range w.destOrder {
		d := w.dests[id]
		verifAssert(d.teardowns == d.opens, label+"-destination-plugin-teardown-count")
	}
}

// lDecodeStored extracts the source position index from the real JSON document (native replay).
func lDecodeStored(raw []byte) int {
	var doc struct {
		State struct {
			Position []byte
		}
	}
	if err := json.Unmarshal(raw, &doc); err != nil {
		return -3
	}
	if len(doc.State.Position) == 0 {
		return -1
	}
	return lIdx(opencdc.Position(doc.State.Position))
}
