//go:build verif

package provisioning

// C15/C16: the real provisioning.Service (import, export, plan, apply) over
// the real pipeline/connector/processor services and a fake transactional DB
// with fault injection; the lifecycle service is a recording fake.

import (
	"context"
	"sort"
	"strconv"
	"strings"
	"sync"
	"time"

	"github.com/conduitio/conduit-commons/database"
	"github.com/conduitio/conduit-commons/opencdc"
	sdk "github.com/conduitio/conduit-processor-sdk"
	"github.com/conduitio/conduit/pkg/connector"
	"github.com/conduitio/conduit/pkg/foundation/cerrors"
	"github.com/conduitio/conduit/pkg/foundation/log"
	"github.com/conduitio/conduit/pkg/lifecycle"
	"github.com/conduitio/conduit/pkg/pipeline"
	connectorPlugin "github.com/conduitio/conduit/pkg/plugin/connector"
	"github.com/conduitio/conduit/pkg/plugin/processor/egress"
	"github.com/conduitio/conduit/pkg/processor"
	"github.com/conduitio/conduit/pkg/provisioning/config"
)

// ---- fake transactional DB with one injected fault ----

type oDB struct {
	mu        sync.Mutex
	committed map[string][]byte
	ops       int // store operations seen so far (Set / NewTransaction / Commit)
	failAt    int // index of the operation that fails (-1: none)
	armed     int // >0: draw the failing operation among the next `armed` ones at the first store operation
}

type oTx struct {
	db   *oDB
	sets map[string][]byte
	done bool
}
type oTxKey struct{}

func (d *oDB) fault() bool {
	if d.armed > 0 {
		// drawn lazily: which of the next store operations fails (0: none)
		k := verifConcrete(verifChoice("failAt", d.armed+1))
		d.armed = 0
		d.failAt = d.ops + k - 1
		if k == 0 {
			d.failAt = -1
		}
	}
	d.ops++
	return d.ops-1 == d.failAt
}

func (d *oDB) NewTransaction(ctx context.Context, update bool) (database.Transaction, context.Context, error) {
	d.mu.Lock()
	defer d.mu.Unlock()
	if d.fault() {
		return nil, ctx, cerrors.New("verif: NewTransaction failed")
	}
	tx := &oTx{db: d, sets: map[string][]byte{}}
	return tx, context.WithValue(ctx, oTxKey{}, tx), nil
}
func (d *oDB) Close() error               { return nil }
func (d *oDB) Ping(context.Context) error { return nil }
func (d *oDB) Set(ctx context.Context, key string, value []byte) error {
	d.mu.Lock()
	defer d.mu.Unlock()
	if d.fault() {
		return cerrors.New("verif: Set failed")
	}
	// as the in-memory reference DB: a write through a finished transaction is
	// absorbed by it and never becomes visible
	if tx, ok := ctx.Value(oTxKey{}).(*oTx); ok && tx != nil {
		tx.sets[key] = value
		return nil
	}
	if value == nil {
		delete(d.committed, key)
	} else {
		d.committed[key] = value
	}
	return nil
}
func (d *oDB) Get(ctx context.Context, key string) ([]byte, error) {
	d.mu.Lock()
	defer d.mu.Unlock()
	if tx, ok := ctx.Value(oTxKey{}).(*oTx); ok && tx != nil {
		if v, ok := tx.sets[key]; ok {
			if v == nil {
				return nil, database.ErrKeyNotExist
			}
			return v, nil
		}
	}
	v, ok := d.committed[key]
	if !ok {
		return nil, database.ErrKeyNotExist
	}
	return v, nil
}
func (d *oDB) GetKeys(ctx context.Context, prefix string) ([]string, error) {
	d.mu.Lock()
	defer d.mu.Unlock()
	var keys []string
	for k := range d.committed {
		if strings.HasPrefix(k, prefix) {
			keys = append(keys, k)
		}
	}
	sort.Strings(keys)
	return keys, nil
}
func (t *oTx) Commit() error {
	t.db.mu.Lock()
	defer t.db.mu.Unlock()
	if t.db.fault() {
		t.done = true
		return cerrors.New("verif: Commit failed")
	}
	t.done = true
	for k, v := range t.sets {
		if v == nil {
			delete(t.db.committed, k)
		} else {
			t.db.committed[k] = v
		}
	}
	return nil
}
func (t *oTx) Discard() { t.done = true }

// ---- codec stubs (engine only): a stored document is a handle to a snapshot ----

var oSnaps = map[string]any{}

func oSnap(v any) []byte {
	k := "snap#" + strconv.Itoa(len(oSnaps))
	oSnaps[k] = v
	return []byte(k)
}

func verifStubEncPipeline(s *pipeline.Store, i *pipeline.Instance) ([]byte, error) {
	c := &pipeline.Instance{ID: i.ID, Config: i.Config, Error: i.Error, ProvisionedBy: i.ProvisionedBy, DLQ: i.DLQ,
		ConnectorIDs: append([]string(nil), i.ConnectorIDs...), ProcessorIDs: append([]string(nil), i.ProcessorIDs...)}
	c.SetStatus(i.GetStatus())
	return oSnap(c), nil
}
func verifStubDecPipeline(s *pipeline.Store, raw []byte) (*pipeline.Instance, error) {
	i := oSnaps[string(raw)].(*pipeline.Instance)
	c := &pipeline.Instance{ID: i.ID, Config: i.Config, Error: i.Error, ProvisionedBy: i.ProvisionedBy, DLQ: i.DLQ,
		ConnectorIDs: append([]string(nil), i.ConnectorIDs...), ProcessorIDs: append([]string(nil), i.ProcessorIDs...)}
	c.SetStatus(i.GetStatus())
	return c, nil
}
func verifStubEncConnector(s *connector.Store, i *connector.Instance) ([]byte, error) {
	c := &connector.Instance{ID: i.ID, Type: i.Type, Config: i.Config, PipelineID: i.PipelineID, Plugin: i.Plugin,
		ProcessorIDs: append([]string(nil), i.ProcessorIDs...), State: i.State, ProvisionedBy: i.ProvisionedBy, LastActiveConfig: i.LastActiveConfig}
	return oSnap(c), nil
}
func verifStubDecConnector(s *connector.Store, raw []byte) (*connector.Instance, error) {
	i := oSnaps[string(raw)].(*connector.Instance)
	return &connector.Instance{ID: i.ID, Type: i.Type, Config: i.Config, PipelineID: i.PipelineID, Plugin: i.Plugin,
		ProcessorIDs: append([]string(nil), i.ProcessorIDs...), State: i.State, ProvisionedBy: i.ProvisionedBy, LastActiveConfig: i.LastActiveConfig}, nil
}
func verifStubEncProcessor(s *processor.Store, i *processor.Instance) ([]byte, error) {
	return oSnap(&processor.Instance{ID: i.ID, ProvisionedBy: i.ProvisionedBy, Plugin: i.Plugin, Condition: i.Condition, Parent: i.Parent, Config: i.Config}), nil
}
func verifStubDecProcessor(s *processor.Store, raw []byte) (*processor.Instance, error) {
	i := oSnaps[string(raw)].(*processor.Instance)
	return &processor.Instance{ID: i.ID, ProvisionedBy: i.ProvisionedBy, Plugin: i.Plugin, Condition: i.Condition, Parent: i.Parent, Config: i.Config}, nil
}


// ---- fakes ----

type pConnPlugins struct{}

func (pConnPlugins) NewDispenser(log.CtxLogger, string, string) (connectorPlugin.Dispenser, error) {
	return nil, cerrors.New("verif: no dispenser")
}

type pProcRegistry struct{}
type pNopProcessor struct{ sdk.UnimplementedProcessor }

func (pNopProcessor) Teardown(context.Context) error { return nil }
func (pNopProcessor) Process(context.Context, []opencdc.Record) []sdk.ProcessedRecord {
	return nil
}
func (pProcRegistry) NewProcessor(context.Context, string, string, egress.Policy) (sdk.Processor, error) {
	return pNopProcessor{}, nil
}

// pLifecycle records what the apply path asks of the running pipeline.
type pLifecycle struct {
	w             *pWorld
	calls         []string
	faulty        bool // the fakes may fail (each outcome is drawn when the call happens)
	stopErr       bool
	startErr      bool
	reconfErr     int // 0 ok, 1 not live-reconfigurable, 2 other error
	storeAtStop   []string
	storeAtImport []string
	yield         bool
	live          map[string]string // processor id -> configuration the running node was built from (nil: not modelled)
	lastOK        map[string]bool   // processor id -> did the last ReconfigureProcessor call for it succeed
}

func (l *pLifecycle) Start(_ context.Context, id string) error {
	l.calls = append(l.calls, "start")
	if l.faulty {
		l.startErr = verifBool("startFails")
	}
	if l.startErr {
		return cerrors.New("verif: start failed")
	}
	_ = l.w.pipes.UpdateStatus(context.Background(), id, pipeline.StatusRunning, "")
	return nil
}
func (l *pLifecycle) Stop(context.Context, string, bool) error {
	l.calls = append(l.calls, "stop")
	return nil
}
func (l *pLifecycle) StopAndWait(_ context.Context, id string) error {
	l.calls = append(l.calls, "stopandwait")
	if l.yield {
		verifYield() // draining takes a while: other appliers get to run
	}
	if l.faulty {
		l.stopErr = verifBool("stopFails")
	}
	if l.stopErr {
		return cerrors.New("verif: stop failed")
	}
	_ = l.w.pipes.UpdateStatus(context.Background(), id, pipeline.StatusUserStopped, "")
	return nil
}
func (l *pLifecycle) ReconfigureProcessor(_ context.Context, _ string, procID string) error {
	l.calls = append(l.calls, "reconfigure:"+procID)
	if l.faulty {
		l.reconfErr = verifConcrete(verifChoice("reconf", 3))
	}
	if l.live != nil {
		l.lastOK[procID] = l.reconfErr == 0
	}
	switch l.reconfErr {
	case 1:
		return lifecycle.ErrProcessorNotLiveReconfigurable
	case 2:
		return cerrors.New("verif: reconfigure failed")
	}
	if l.live != nil {
		// like the real ReconfigureProcessor: the running node is rebuilt from
		// the configuration stored at this instant
		l.live[procID] = l.w.procStored(procID)
	}
	return nil
}

// procStored renders the stored configuration of one processor.
func (w *pWorld) procStored(id string) string {
	in, err := w.procs.Get(context.Background(), id)
	if err != nil {
		return "<none>"
	}
	return in.Plugin + " k=" + in.Config.Settings["k"] + " w=" + strconv.Itoa(in.Config.Workers) + " cond=" + in.Condition
}

type pWorld struct {
	db    *oDB
	pipes *pipeline.Service
	conns *connector.Service
	procs *processor.Service
	lc    *pLifecycle
	svc   *Service
}

func newPWorld() *pWorld {
	db := &oDB{committed: map[string][]byte{}, failAt: -1}
	logger := log.Nop()
	w := &pWorld{db: db}
	w.pipes = pipeline.NewService(logger, db)
	w.conns = connector.NewService(logger, db, connector.NewPersister(logger, db, time.Hour, 1<<30))
	w.procs = processor.NewService(logger, db, pProcRegistry{})
	w.lc = &pLifecycle{w: w}
	w.svc = NewService(db, logger, w.pipes, w.conns, w.procs, pConnPlugins{}, w.lc, "")
	return w
}

// ---- configuration grammar ----

func pProc(id string, v int) config.Processor {
	p := config.Processor{ID: id, Plugin: "proc", Settings: map[string]string{"k": "v" + strconv.Itoa(v)}, Workers: 1 + v}
	if verifParam("wFixed", 0) == 1 {
		// only the settings vary: updates of this processor are live-swappable
		p.Workers = 1
		return p
	}
	if v == 1 && (id == "x" || id == "b") {
		// only some processors carry a condition, so that others see pure updates
		p.Condition = "cond"
	}
	return p
}

// pConfig draws one configuration of pipeline "pl" from the grammar.
func pConfig(tag string) config.Pipeline {
	v := verifConcrete(verifChoice(tag+".variant", 2))
	cfg := config.Pipeline{ID: "pl", Status: config.StatusStopped, Name: "name" + strconv.Itoa(v), Description: "d" + strconv.Itoa(v)}
	c1 := config.Connector{ID: "c1", Type: config.TypeSource, Plugin: "builtin:gen", Name: "c1", Settings: map[string]string{"k": "v" + strconv.Itoa(v)}}
	if verifParam("ckFixed", 0) == 1 {
		// the connector does not change with the variant: diffs can be processor-only / name-only
		c1.Settings["k"] = "v0"
	}
	switch verifConcrete(verifChoice(tag+".c1procs", verifParam("procShapes", 4))) {
	case 1:
		c1.Processors = []config.Processor{pProc("a", v)}
	case 2:
		c1.Processors = []config.Processor{pProc("a", v), pProc("b", 0), pProc("c", 0)}
	case 3:
		c1.Processors = []config.Processor{pProc("c", 0), pProc("a", v)}
	}
	cfg.Connectors = []config.Connector{c1}
	if verifParam("dlqShapes", 1) == 1 && verifConcrete(verifChoice(tag+".dlq", 2)) == 1 {
		// a custom nack window whose threshold is chosen independently of the variant
		size, th := 4, 1+verifConcrete(verifChoice(tag+".dlqth", 2))
		cfg.DLQ = config.DLQ{Plugin: "builtin:log", Settings: map[string]string{"level": "warn"}, WindowSize: &size, WindowNackThreshold: &th}
	}
	if verifConcrete(verifChoice(tag+".twoConns", verifParam("connShapes", 2))) == 1 {
		cfg.Connectors = append(cfg.Connectors, config.Connector{ID: "c2", Type: config.TypeDestination, Plugin: "builtin:log", Name: "c2", Settings: map[string]string{}})
	}
	switch verifConcrete(verifChoice(tag+".plprocs", verifParam("plShapes", 3))) {
	case 1:
		cfg.Processors = []config.Processor{pProc("x", v)}
	case 2:
		cfg.Processors = []config.Processor{pProc("y", 0), pProc("x", v)}
	}
	return config.Enrich(cfg)
}

// pFixed returns one of three fixed configurations of the pipeline (no choices).
func pFixed(kind int) config.Pipeline {
	cfg := config.Pipeline{ID: "pl", Status: config.StatusStopped, Name: "name0", Description: "d0"}
	c1 := config.Connector{ID: "c1", Type: config.TypeSource, Plugin: "builtin:gen", Name: "c1", Settings: map[string]string{"k": "v0"}}
	switch kind {
	case 1: // a connector setting and the description change
		c1.Settings["k"] = "v1"
		cfg.Description = "d1"
	case 2: // a pipeline processor is added
		cfg.Processors = []config.Processor{pProc("x", 0)}
	}
	cfg.Connectors = []config.Connector{c1}
	return config.Enrich(cfg)
}

func pRenderProcs(ps []config.Processor) string {
	var sb strings.Builder
	for _, p := range ps {
		sb.WriteString("[" + p.ID + " " + p.Plugin + " k=" + p.Settings["k"] + " w=" + strconv.Itoa(p.Workers) + " cond=" + p.Condition + "]")
	}
	return sb.String()
}

// pRender is the canonical text of a configuration (order, settings, workers, conditions).
func pRender(c config.Pipeline) string {
	var sb strings.Builder
	sb.WriteString("pipeline " + c.ID + " name=" + c.Name + " desc=" + c.Description + " dlq=" + c.DLQ.Plugin)
	if c.DLQ.WindowSize != nil && c.DLQ.WindowNackThreshold != nil {
		sb.WriteString("/" + strconv.Itoa(*c.DLQ.WindowSize) + "/" + strconv.Itoa(*c.DLQ.WindowNackThreshold))
	}
	for _, cn := range c.Connectors {
		sb.WriteString(" conn[" + cn.ID + " " + cn.Type + " " + cn.Plugin + " " + cn.Name + " k=" + cn.Settings["k"] + " procs=" + pRenderProcs(cn.Processors) + "]")
	}
	sb.WriteString(" procs=" + pRenderProcs(c.Processors))
	return sb.String()
}

func pRenderDLQ(c config.Pipeline) string {
	s := c.DLQ.Plugin + "|" + c.DLQ.Settings["level"]
	if c.DLQ.WindowSize != nil {
		s += "|" + strconv.Itoa(*c.DLQ.WindowSize)
	}
	if c.DLQ.WindowNackThreshold != nil {
		s += "|" + strconv.Itoa(*c.DLQ.WindowNackThreshold)
	}
	return s
}

func pRenderConns(c config.Pipeline) string {
	var sb strings.Builder
	for _, cn := range c.Connectors {
		sb.WriteString("[" + cn.ID + " " + cn.Type + " " + cn.Plugin + " " + cn.Name + " k=" + cn.Settings["k"] + "]")
	}
	return sb.String()
}

func (w *pWorld) exported() string {
	c, err := w.svc.Export(context.Background(), "pl")
	if err != nil {
		return "<none>"
	}
	return pRender(c)
}

func (w *pWorld) srcState() string {
	cn, err := w.conns.Get(context.Background(), "pl:c1")
	if err != nil {
		return "<none>"
	}
	if st, ok := cn.State.(connector.SourceState); ok {
		return string(st.Position)
	}
	return ""
}

// verifStubHash replaces Diff.computeHash (JSON + SHA-256) by an injective rendering.
func verifStubHash(d Diff, desired config.Pipeline) string {
	var sb strings.Builder
	sb.WriteString(d.PipelineID + "|")
	for _, c := range d.Changes {
		sb.WriteString(string(c.Resource) + ":" + c.ID + ":" + string(c.Action) + ":" + string(c.Effect) + ":" + strings.Join(c.ConfigPaths, ",") + ";")
	}
	sb.WriteString("|" + pRender(desired))
	return sb.String()
}

// pRenderPlan is the canonical text of what a plan shows the operator: every
// field of every change, in order.
func pRenderPlan(d Diff) string {
	var sb strings.Builder
	sb.WriteString(d.PipelineID + "|")
	for _, c := range d.Changes {
		sb.WriteString(string(c.Resource) + ":" + c.ID + ":" + string(c.Action) + ":" + string(c.Effect) + ":" + strings.Join(c.ConfigPaths, ",") + ":" + strconv.FormatBool(c.LiveSwappable) + ":" + c.Code + ";")
	}
	return sb.String()
}

// verifStubMarshal replaces goccy/go-json Marshal (reflection) inside the real
// Diff.computeHash by an injective structural rendering of the same value:
// what computeHash feeds the digest is still decided by the code under test.
func verifStubMarshal(v any) ([]byte, error) { return []byte(verifDeepRender(v)), nil }

var verifDigests []string

// verifStubSum256 replaces sha256.Sum256 by an interning table: equal inputs
// get equal digests, different inputs different ones (collision-free model).
func verifStubSum256(b []byte) [32]byte {
	s := string(b)
	idx := -1
	for k, x := range verifDigests {
		if x == s {
			idx = k
		}
	}
	if idx < 0 {
		verifDigests = append(verifDigests, s)
		idx = len(verifDigests) - 1
	}
	var out [32]byte
	out[0], out[1] = byte(idx), byte(idx>>8)
	return out
}
