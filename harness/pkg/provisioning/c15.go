//go:build verif

package provisioning

import (
	"context"
	"sync"

	"github.com/conduitio/conduit-commons/opencdc"
	"github.com/conduitio/conduit/pkg/connector"
	"github.com/conduitio/conduit/pkg/pipeline"
	"github.com/conduitio/conduit/pkg/provisioning/config"
)

func init() {
	verifRegister("VerifC15Import", VerifC15Import)
	verifRegister("VerifC16Apply", VerifC16Apply)
	verifRegister("VerifC16Locks", VerifC16Locks)
	verifRegister("VerifC16Concurrent", VerifC16Concurrent)
}

// VerifC15Import: import an old configuration, then a new one (with one store
// operation failing or not): convergence, idempotence, atomic failure, and the
// source position of a connector that persists across the import.
func VerifC15Import() {
	ctx := context.Background()
	w := newPWorld()
	old := pConfig("old")
	if err := w.svc.Import(ctx, old); err != nil {
		verifFail("c15-first-import-failed")
	}
	verifAssert(w.exported() == pRender(old), "c15-import-did-not-converge")
	if _, err := w.conns.SetState(ctx, "pl:c1", connector.SourceState{Position: opencdc.Position("p5")}); err != nil {
		verifFail("c15-setup-failed")
	}
	newCfg := pConfig("new")
	before := w.exported()
	w.db.ops = 0
	w.db.failAt = verifConcrete(verifChoice("failAt", verifParam("maxFail", 6)+1)) - 1
	err := w.svc.Import(ctx, newCfg)
	w.db.failAt = -1
	if err != nil {
		// a failed import fully retains the previous configuration
		verifAssert(w.exported() == before, "c15-failed-import-changed-configuration")
		verifAssert(w.srcState() == "p5", "c15-failed-import-lost-position")
		verifCover("failed")
		return
	}
	verifAssert(w.exported() == pRender(newCfg), "c15-import-did-not-converge")
	// the connector persists with the same id and type: its stored position is kept
	verifAssert(w.srcState() == "p5", "c15-import-lost-position")
	// importing the same configuration again changes nothing
	d, perr := w.svc.Plan(ctx, newCfg)
	verifAssert(perr == nil && d.Empty(), "c15-reimport-not-idempotent")
	verifAssert(w.svc.Import(ctx, newCfg) == nil, "c15-reimport-failed")
	verifAssert(w.exported() == pRender(newCfg), "c15-reimport-changed-configuration")
	verifObserve("converged", true)
	verifCover("converged")
}

// VerifC16Apply: ApplyPlanLive on a running or stopped pipeline.
func VerifC16Apply() {
	ctx := context.Background()
	w := newPWorld()
	old := pConfig("old")
	if err := w.svc.Import(ctx, old); err != nil {
		verifFail("c16-first-import-failed")
	}
	running := verifBool("running")
	if running {
		_ = w.pipes.UpdateStatus(ctx, "pl", pipeline.StatusRunning, "")
	}
	newCfg := pConfig("new")
	plan, err := w.svc.Plan(ctx, newCfg)
	if err != nil {
		verifFail("c16-plan-failed")
	}
	hash := plan.Hash
	stale := false
	if plan.Empty() || verifBool("stale") {
		stale = !plan.Empty()
	}
	if stale {
		// the state changes after the plan was computed
		third := pConfig("third")
		st := w.pipes
		was := running
		if was {
			_ = st.UpdateStatus(ctx, "pl", pipeline.StatusUserStopped, "")
		}
		_ = w.svc.Import(ctx, third)
		if was {
			_ = st.UpdateStatus(ctx, "pl", pipeline.StatusRunning, "")
		}
		fresh, _ := w.svc.Plan(ctx, newCfg)
		// staleness is judged on the change lists themselves (every field the
		// operator reviewed), not on the hash the code under test computes
		// (a differing hash alone also obliges the code to refuse: the token
		// presented is not the current one)
		stale = pRenderPlan(fresh) != pRenderPlan(plan) || fresh.Hash != hash
	}
	allow := verifBool("allowRestart")
	w.lc.faulty = true
	before := w.exported()
	w.lc.calls = nil
	w.db.armed = verifParam("maxFail", 2)
	if running && verifParam("liveModel", 0) == 1 {
		// the running nodes were built from the stored configuration
		w.lc.live, w.lc.lastOK = map[string]string{}, map[string]bool{}
		for id := range w.procs.List(ctx) {
			w.lc.live[id] = w.procStored(id)
		}
	}
	diff, aerr := w.svc.ApplyPlanLive(ctx, newCfg, hash, allow)
	w.db.failAt, w.db.armed = -1, 0
	calls := w.lc.calls

	mutated := w.exported() != before
	if w.lc.live != nil {
		restarted := false
		for _, c := range calls {
			if c == "stopandwait" || c == "start" {
				restarted = true
			}
		}
		if !restarted {
			// a pipeline that kept running runs, for every processor whose last
			// swap request succeeded, exactly the stored configuration (applied
			// or rolled back): store and live nodes agree
			for id, cfg := range w.lc.live {
				if ok, asked := w.lc.lastOK[id]; asked && ok {
					verifAssert(cfg == w.procStored(id), "c13-live-processor-disagrees-with-stored-configuration")
					verifCover("swapped")
				}
			}
		}
	}
	if stale {
		verifAssert(aerr != nil, "c16-stale-plan-applied")
		verifAssert(!mutated && len(calls) == 0, "c16-stale-plan-touched-the-pipeline")
		verifCover("stale")
		return
	}
	if plan.Empty() {
		verifAssert(!mutated && len(calls) == 0, "c16-empty-plan-touched-the-pipeline")
		return
	}
	if running && !allow {
		verifAssert(aerr != nil, "c16-running-pipeline-touched-without-authorisation")
		verifAssert(!mutated && len(calls) == 0, "c16-running-pipeline-touched-without-authorisation")
		verifCover("unauthorised")
		return
	}
	// call-order oracle on the lifecycle log
	sawStop, stopOK, sawStart := false, false, false
	for _, c := range calls {
		switch {
		case c == "stopandwait":
			sawStop = true
			stopOK = !w.lc.stopErr
		case c == "start":
			verifAssert(sawStop && stopOK, "c16-start-without-successful-stop")
			sawStart = true
		case len(c) > 12 && c[:12] == "reconfigure:":
			verifAssert(plan.LiveEligible(), "c16-in-place-swap-for-non-live-eligible-plan")
		}
	}
	if !running {
		verifAssert(len(calls) == 0, "c16-stopped-pipeline-lifecycle-touched")
	}
	// independent of the plan's own classification: a change of the DLQ (plugin,
	// settings or nack window) or of a connector is never applied to a running
	// pipeline without draining it first
	if running && aerr == nil && (pRenderDLQ(old) != pRenderDLQ(newCfg) || pRenderConns(old) != pRenderConns(newCfg)) {
		verifAssert(sawStop && stopOK, "c16-restart-requiring-change-applied-without-drain")
	}
	if sawStop && !stopOK {
		verifAssert(!mutated, "c16-imported-although-stop-failed")
		verifAssert(!sawStart, "c16-start-after-failed-stop")
	}
	if aerr == nil {
		verifAssert(w.exported() == pRender(newCfg), "c16-apply-did-not-converge")
		if running {
			verifAssert(diff.AppliedMode == ApplyModeInPlace || (sawStop && stopOK && sawStart), "c16-running-pipeline-changed-without-drain")
		}
		verifCover("applied")
	} else if mutated {
		// a failed apply leaves a consistent stored configuration: old or new, never a mixture
		verifAssert(w.exported() == pRender(newCfg) || w.exported() == before, "c16-failed-apply-left-mixed-configuration")
		verifCover("failed-after-import")
	} else {
		verifCover("failed")
	}
	// liveSwappable never true for connector changes, worker-count changes, or pipeline changes beyond name/description
	for _, c := range plan.Changes {
		if c.LiveSwappable {
			verifAssert(c.Resource != ResourceConnector, "c16-connector-change-marked-live-swappable")
			for _, p := range c.ConfigPaths {
				verifAssert(p != configPathWorkers, "c16-worker-change-marked-live-swappable")
			}
		}
	}
}

// VerifC16Concurrent: two appliers hold a plan computed from the same state of
// one pipeline and apply concurrently (the drain of a running pipeline yields).
// Only one of the plans can still match the state it was computed from: the
// other apply is refused as stale and touches nothing.
func VerifC16Concurrent() {
	ctx := context.Background()
	w := newPWorld()
	old := pFixed(0)
	if err := w.svc.Import(ctx, old); err != nil {
		verifFail("c16-first-import-failed")
	}
	running := verifBool("running")
	if running {
		_ = w.pipes.UpdateStatus(ctx, "pl", pipeline.StatusRunning, "")
	}
	cfgs := []config.Pipeline{pFixed(1), pFixed(1 + verifConcrete(verifChoice("second", 2)))}
	var hashes [2]string
	for k := range cfgs {
		plan, err := w.svc.Plan(ctx, cfgs[k])
		if err != nil {
			verifFail("c16-plan-failed")
		}
		verifAssume(!plan.Empty())
		hashes[k] = plan.Hash
	}
	w.lc.yield = true
	var errs [2]error
	var wg sync.WaitGroup
	for k := range cfgs {
		wg.Add(1)
		go func(k int) {
			defer wg.Done()
			if running {
				_, errs[k] = w.svc.ApplyPlanLive(ctx, cfgs[k], hashes[k], true)
			} else {
				_, errs[k] = w.svc.ApplyPlan(ctx, cfgs[k], hashes[k])
			}
		}(k)
	}
	wg.Wait()
	verifSchedOff()
	ok := 0
	for k := range errs {
		if errs[k] == nil {
			ok++
		}
	}
	// the plans were computed from the same state and both change it: after one
	// is applied the other no longer matches
	verifAssert(ok <= 1, "c16-stale-plan-applied")
	stops, starts := 0, 0
	for _, c := range w.lc.calls {
		if c == "stopandwait" {
			stops++
		}
		if c == "start" {
			starts++
		}
	}
	verifAssert(stops <= 1 && starts <= 1, "c16-stale-plan-touched-the-pipeline")
	if ok == 1 {
		for k := range errs {
			if errs[k] == nil {
				verifAssert(w.exported() == pRender(cfgs[k]), "c16-apply-did-not-converge")
			}
		}
		verifCover("one-applied")
	}
}

// VerifC16Locks: critical sections of appliers for one pipeline id never
// overlap; appliers for different ids do not block each other.
func VerifC16Locks() {
	locks := newPipelineLocks()
	inA := 0
	var wg sync.WaitGroup
	for k := 0; k < 2; k++ {
		wg.Add(1)
		go func() {
			defer wg.Done()
			unlock := locks.Lock("a")
			inA++
			verifAssert(inA == 1, "c16-critical-sections-for-one-pipeline-overlap")
			verifYield()
			inA--
			unlock()
		}()
	}
	// while "a" is held by this goroutine, "b" must still be available
	unlockA := locks.Lock("a")
	done := make(chan struct{})
	go func() {
		defer close(done)
		unlockB := locks.Lock("b")
		unlockB()
	}()
	<-done // would deadlock (reported as a hang) if different ids blocked each other
	unlockA()
	wg.Wait()
	verifCover("end")
}
