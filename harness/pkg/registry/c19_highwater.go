//go:build verif

package registry

// C19 (rollback high-water mark): the real TrustedVerifier.VerifyIndex (state
// lock, LoadState, CheckRollback, CheckStaleness, SaveState through the real
// atomicfile.WriteFile) over the in-memory file system, called concurrently.
// Signature verification and content hashing (ed25519 / JCS) are replaced by
// fakes whose verdicts are chosen by the solver; index versions are symbolic.

import (
	"context"
	"sync"
	"time"

	"github.com/conduitio/conduit/pkg/foundation/cerrors"
	"github.com/conduitio/conduit/pkg/registry/index"
	zzvfs "github.com/conduitio/conduit/pkg/zzverifvfs"
)

func init() { verifRegister("VerifC19HighWater", VerifC19HighWater) }

type hwIndex struct {
	version  int64
	root     bool
	sigOK    bool
	stale    bool
	accepted bool
	done     bool
}

type hwWorld struct {
	fs      *zzvfs.FS
	path    string
	idx     []*hwIndex
	seen    int64 // highest durable version observed so far
	hasSeen bool
	lastDoc string
}

var hwW *hwWorld

// verifIndexVerify replaces index.Verify: raw[0] selects the fetched index.
func verifIndexVerify(raw []byte, _ index.TrustAnchors, lastHash string) (*index.VerifiedIndex, error) {
	ix := hwW.idx[int(raw[0])]
	if !ix.sigOK {
		return nil, cerrors.New("verif: index signature verification failed")
	}
	if !ix.root && lastHash == "" {
		return nil, cerrors.New("verif: freshness-only index without a root-verified content hash on record")
	}
	vi := &index.VerifiedIndex{Verified: true, RootVerified: ix.root}
	vi.Payload.Index.Version = ix.version
	vi.Payload.Index.Timestamp = time.Now().Add(-time.Hour)
	if ix.stale {
		vi.Payload.Index.Timestamp = time.Now().Add(-10 * index.DefaultMaxStaleness)
	}
	return vi, nil
}

func verifHashContent(_ []index.Connector, _ []index.Processor) (string, error) {
	return "sha256:content", nil
}

// durableVersion reads what a crash right now would leave in the state file.
func (w *hwWorld) durableVersion() (int64, bool) {
	data, ok, torn := w.fs.Durable(w.path)
	if !ok {
		return 0, false
	}
	verifAssert(!torn, "c19-index-state-torn")
	id, ok := zzvfs.DocID(data)
	verifAssert(ok, "c19-index-state-partial-document")
	st, _ := w.fs.Doc(id).(index.State)
	return st.Version, true
}

func (w *hwWorld) observe() {
	if data, ok, _ := w.fs.Durable(w.path); ok && w.hasSeen && string(data) == w.lastDoc {
		return // unchanged since the last observation
	} else if ok {
		w.lastDoc = string(data)
	}
	v, ok := w.durableVersion()
	if !ok {
		verifAssert(!w.hasSeen, "c19-index-state-vanished")
		return
	}
	if w.hasSeen {
		verifAssert(v >= w.seen, "c19-high-water-mark-decreased")
	}
	w.seen, w.hasSeen = v, true
}

func VerifC19HighWater() {
	n := verifParam("callers", 2)
	w := &hwWorld{fs: zzvfs.New(), path: indexStatePath(gTarget)}
	hwW = w
	zzvfs.Cur = w.fs
	w.fs.Clone, w.fs.Assign = gClone, gAssign
	w.fs.PutDir(registryDir(gTarget))
	hw0 := int64(-1)
	if verifBool("hasState") {
		hw0 = verifInt64("hw0")
		verifAssume(hw0 >= 0)
		st := index.State{Version: hw0}
		if verifBool("hasHash") {
			st.LastVerifiedContentHash = "sha256:content"
		}
		data, _ := zzvfs.JSONMarshal(st)
		w.fs.Put(w.path, data)
	}
	full := verifParam("full", 0) == 1
	for i := 0; i < n; i++ {
		ix := &hwIndex{version: verifInt64("version"), root: true, sigOK: true}
		verifAssume(ix.version >= 0)
		if full || i == 0 {
			// (quick tier: only the first caller's index varies in kind)
			ix.root = verifBool("root")
			ix.stale = verifBool("stale")
		}
		if full {
			ix.sigOK = verifBool("sigok")
		}
		w.idx = append(w.idx, ix)
	}
	w.observe()
	w.fs.Step = func(op, p string) {
		w.observe()
		verifYield()
	}
	v := &TrustedVerifier{StatePath: w.path, LockTimeout: 5 * time.Second}
	var wg sync.WaitGroup
	for i := 0; i < n; i++ {
		wg.Add(1)
		go func(i int) {
			defer wg.Done()
			_, err := v.VerifyIndex(context.Background(), []byte{byte(i)})
			w.idx[i].accepted, w.idx[i].done = err == nil, true
		}(i)
	}
	wg.Wait()
	verifSchedOff()
	w.fs.Step = nil
	w.observe()
	final, has := w.durableVersion()
	for _, ix := range w.idx {
		if ix.accepted {
			// an accepted index is never older than the mark it was checked against,
			// and the recorded mark never falls below an accepted version
			verifAssert(ix.version >= hw0, "c19-rollback-accepted")
			verifAssert(!ix.stale, "c19-stale-index-accepted")
			verifAssert(has && final >= ix.version, "c19-high-water-mark-below-accepted-index")
			verifCover("accepted")
		} else {
			verifCover("refused")
		}
		if ix.version < hw0 {
			verifAssert(!ix.accepted, "c19-rollback-accepted")
		}
	}
	if has {
		verifAssert(final >= hw0, "c19-high-water-mark-decreased")
	}
	verifAssert(!w.fs.Locked(indexStateLockPath(w.path)), "c19-index-state-lock-leaked")
}
