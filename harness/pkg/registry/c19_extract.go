//go:build verif

package registry

// C19 (archive confinement): the real ExtractBinary over a fake archive whose
// entries (names, types, sizes, order) are chosen by the solver, against the
// in-memory file system model. Nothing may be created outside the extraction
// directory, whatever the archive contains.

import (
	"archive/tar"
	"strings"

	zzvfs "github.com/conduitio/conduit/pkg/zzverifvfs"
)

func init() {
	verifRegister("VerifC19ExtractName", VerifC19ExtractName)
	verifRegister("VerifC19ExtractMulti", VerifC19ExtractMulti)
}

const (
	xTarget  = "/t/connectors"
	xStaging = xTarget + "/.registry/staging/install-0001"
	xDest    = xStaging + "/extracted"
	xArchive = xStaging + "/artifact.tar.gz"
)

// symName draws an entry name as a sequence of at most maxComp path components
// from {"", ".", "..", "a", "..a"} joined by '/', optionally with a leading '/':
// the path logic under test (Clean, IsAbs, the ".." prefix checks, Join) works
// on components, and these are the component classes it distinguishes on unix
// (empty, current, parent, ordinary, ordinary starting with dots).
func symName(tag string, maxComp int) string {
	comps := []string{"", ".", "..", "a", "..a"}
	n := 1 + verifConcrete(verifChoice(tag+"ncomp", maxComp))
	name := ""
	if verifBool(tag + "abs") {
		name = "/"
	}
	for i := 0; i < n; i++ {
		if i > 0 {
			name += "/"
		}
		name += comps[verifConcrete(verifChoice(tag+"comp", len(comps)))]
	}
	return name
}

func symType(tag string) byte {
	switch verifConcrete(verifChoice(tag+"type", 7)) {
	case 0:
		return tar.TypeReg
	case 1:
		return tar.TypeDir
	case 2:
		return tar.TypeSymlink
	case 3:
		return tar.TypeLink
	case 4:
		return tar.TypeXGlobalHeader
	case 5:
		return tar.TypeFifo
	default:
		return 0xff // corrupt header: Next fails
	}
}

func xWorld(ents []zzvfs.TarEntry) *zzvfs.FS {
	fs := zzvfs.New()
	zzvfs.Cur = fs
	fs.PutDir(xDest)
	fs.Put(xArchive, []byte("ARCHIVE-BYTES"))
	fs.Put(xTarget+"/conduit-connector-other_1.0.0", []byte("OTHER"))
	fs.Put("/etc/passwd", []byte("root"))
	fs.Created = nil
	fs.Untar = func(content []byte) ([]zzvfs.TarEntry, bool) { return ents, true }
	return fs
}

// xConfined is the confinement oracle over the file system's creation log and
// the paths present afterwards.
func xConfined(fs *zzvfs.FS, before []string) {
	for _, c := range fs.Created {
		p := c[strings.Index(c, ":")+1:]
		verifAssert(strings.HasPrefix(p, xDest+"/"), "c19-extract-escapes-staging")
	}
	known := map[string]bool{}
	for _, p := range before {
		known[p] = true
	}
	for _, p := range fs.Paths() {
		if !known[p] {
			verifAssert(strings.HasPrefix(p, xDest+"/"), "c19-extract-new-path-outside-staging")
		}
	}
	d, _, _ := fs.Content("/etc/passwd")
	verifAssert(string(d) == "root", "c19-extract-overwrote-outside-file")
	d, _, _ = fs.Content(xTarget + "/conduit-connector-other_1.0.0")
	verifAssert(string(d) == "OTHER", "c19-extract-overwrote-installed-file")
}

// VerifC19ExtractName: one entry with an adversarial name (and a benign second
// entry so that success is reachable), every entry type.
func VerifC19ExtractName() {
	maxLen := verifParam("maxcomp", 4)
	name := symName("n", maxLen)
	var typ byte
	fs := xWorld(nil)
	fs.Entry = func(i int) (zzvfs.TarEntry, bool) {
		switch i {
		case 0:
			typ = symType("n")
			size := int64(0)
			if typ == tar.TypeReg {
				size = []int64{0, 10, maxExtractedBytes + 5}[verifConcrete(verifChoice("size", 3))]
			}
			return zzvfs.TarEntry{Name: name, Typeflag: typ, Linkname: "/etc/passwd", Size: size}, true
		case 1:
			if verifBool("second") {
				return zzvfs.TarEntry{Name: "bin", Typeflag: tar.TypeReg, Size: 10}, true
			}
		}
		return zzvfs.TarEntry{}, false
	}
	before := fs.Paths()

	path, err := ExtractBinary(xArchive, xDest)

	xConfined(fs, before)
	if err == nil {
		verifAssert(strings.HasPrefix(path, xDest+"/"), "c19-extract-result-outside-staging")
		ok, isDir := fs.Exists(path)
		verifAssert(ok && !isDir, "c19-extract-result-not-a-file")
		verifAssert(!strings.Contains(path[len(xDest)+1:], "/"), "c19-extract-result-not-root-level")
		verifCover("extracted")
	} else {
		verifCover("refused")
	}
	verifObserve("extract", name, typ, err == nil, path)
}

// VerifC19ExtractMulti: several entries from a menu of benign/ambiguous names
// with symbolic types and sizes: candidate uniqueness and the expansion bound.
func VerifC19ExtractMulti() {
	n := verifParam("entries", 3)
	menu := []string{"bin", "doc/LICENSE", "bin2", "./bin", "doc/../x"}
	var ents []zzvfs.TarEntry
	cnt := verifConcrete(verifChoice("count", n+1))
	total := int64(0)
	rootRegs := 0
	for i := 0; i < cnt; i++ {
		name := menu[verifConcrete(verifChoice("name", len(menu)))]
		typ := byte(tar.TypeReg)
		switch verifConcrete(verifChoice("type", 3)) {
		case 1:
			typ = tar.TypeDir
		case 2:
			typ = tar.TypeXHeader
		}
		size := verifInt64("size")
		verifAssume(size >= 0 && size <= 1<<40)
		ents = append(ents, zzvfs.TarEntry{Name: name, Typeflag: typ, Size: size})
		if typ == tar.TypeReg {
			total += size
			if !strings.Contains(name, "/") || name == "./bin" || name == "doc/../x" {
				rootRegs++
			}
		}
	}
	fs := xWorld(ents)
	before := fs.Paths()

	path, err := ExtractBinary(xArchive, xDest)

	xConfined(fs, before)
	if err == nil {
		verifAssert(rootRegs == 1, "c19-extract-ambiguous-archive-accepted")
		verifAssert(total <= maxExtractedBytes, "c19-extract-expansion-bound-exceeded")
		ok, isDir := fs.Exists(path)
		verifAssert(ok && !isDir, "c19-extract-result-not-a-file")
		verifCover("extracted")
	} else {
		verifCover("refused")
	}
	// whatever the outcome, never more than the bound (+1 probe byte) is written
	var written int64
	for _, p := range fs.Paths() {
		if strings.HasPrefix(p, xDest+"/") {
			if _, sz, ok := fs.Content(p); ok {
				written += sz
			}
		}
	}
	verifAssert(written <= maxExtractedBytes+1, "c19-extract-wrote-past-bound")
}
