//go:build verif

package registry

// C19 (gates and ordering): the real installArtifact pipeline (lock, manifest
// look-up, staging, cache, corruption check, verification gate / policy gate,
// extraction, rename, manifest, audit) over the in-memory file system model.
// The download, the artifact verifier and the archive reader are harness fakes
// whose outcomes are chosen by the solver; in the fault harness any single
// file-system operation may fail and a crash is observed at every step.

import (
	"context"
	"crypto/sha256"
	"encoding/hex"
	"net/http"
	"os"
	"strings"
	"time"

	"github.com/conduitio/conduit/pkg/foundation/cerrors"
	"github.com/conduitio/conduit/pkg/registry/index"
	"github.com/conduitio/conduit/pkg/registry/policy"
	"github.com/conduitio/conduit/pkg/registry/trust"
	zzvfs "github.com/conduitio/conduit/pkg/zzverifvfs"
)

func init() {
	verifRegister("VerifC19Gate", VerifC19Gate)
	verifRegister("VerifC19Faults", VerifC19Faults)
}

const (
	gTarget   = "/t/connectors"
	gFinal    = gTarget + "/conduit-connector-foo_1.0.0"
	gGoodArc  = "GOOD-ARCHIVE-BYTES"
	gEvilArc  = "EVIL-ARCHIVE-BYTES"
	gGoodBin  = "BINARY-GOOD"
	gEvilBin  = "BINARY-EVIL"
	gOtherBin = "OTHER-CONNECTOR"
)

type gVerifyCall struct {
	digest [32]byte
	signed bool
	err    bool
}

type gWorld struct {
	fs *zzvfs.FS
	// configuration
	dlMode     int // 0 good bytes, 1 tampered bytes, 2 transport error
	archive    int // 0 one root binary, 1 not gzip, 2 escaping entry, 3 two candidates, 4 symlink entry
	verMode    int // 0 signed, 1 error, 2 success without signing
	declared   string
	downloads  int
	calls      []gVerifyCall
	policyOK   bool // reference decision for the unsigned path
	unsigned   bool
	faultAt    int
	ops        int
	armed      int
	fired      bool
	crashCheck bool
	hadOther   bool
	baseline   map[string]bool
}

func gSum(s string) [32]byte { return sha256.Sum256([]byte(s)) }

// verifDownload replaces Download (net/http): it honours Download's contract —
// the bytes are written to destPath exclusively, the digest is the digest of
// exactly those bytes, a body larger than maxBytes is refused.
var gW *gWorld

func verifDownload(ctx context.Context, _ *http.Client, url, destPath string, maxBytes int64) (DownloadResult, error) {
	w := gW
	w.downloads++
	if w.dlMode == 2 {
		return DownloadResult{}, cerrors.New("verif: download failed")
	}
	body := gGoodArc
	if w.dlMode == 1 {
		body = gEvilArc
	}
	f, err := zzvfs.OpenFile(destPath, os.O_WRONLY|os.O_CREATE|os.O_EXCL, 0o600)
	if err != nil {
		return DownloadResult{}, err
	}
	defer f.Close()
	if _, err := f.Write([]byte(body)); err != nil {
		return DownloadResult{}, err
	}
	if int64(len(body)) > maxBytes {
		return DownloadResult{}, cerrors.New("verif: too large")
	}
	if err := f.Sync(); err != nil {
		return DownloadResult{}, err
	}
	return DownloadResult{Path: destPath, Digest: gSum(body), Size: int64(len(body))}, nil
}

type gVerifier struct{ w *gWorld }

func (v gVerifier) VerifyArtifact(_ context.Context, ref ArtifactRef, _ trust.PinnedIdentity) (VerifyResult, error) {
	w := v.w
	c := gVerifyCall{digest: ref.Digest}
	switch w.verMode {
	case 1:
		c.err = true
		w.calls = append(w.calls, c)
		return VerifyResult{}, cerrors.New("verif: signature invalid")
	case 2:
		w.calls = append(w.calls, c)
		return VerifyResult{Signed: false}, nil
	}
	// a real verifier accepts only a digest the publisher signed: the good one
	if ref.Digest != gSum(gGoodArc) {
		c.err = true
		w.calls = append(w.calls, c)
		return VerifyResult{}, cerrors.New("verif: digest not signed")
	}
	c.signed = true
	w.calls = append(w.calls, c)
	return VerifyResult{Signed: true, VerifiedIdentity: "publisher"}, nil
}

func (w *gWorld) untar(content []byte) ([]zzvfs.TarEntry, bool) {
	bin := gGoodBin
	if string(content) == gEvilArc {
		bin = gEvilBin
	}
	reg := func(name string) zzvfs.TarEntry {
		return zzvfs.TarEntry{Name: name, Typeflag: '0', Size: int64(len(bin)), Data: []byte(bin)}
	}
	switch w.archive {
	case 1:
		return nil, false
	case 2:
		return []zzvfs.TarEntry{reg("../../conduit-connector-evil_9.9.9")}, true
	case 3:
		return []zzvfs.TarEntry{reg("a"), reg("b")}, true
	case 4:
		return []zzvfs.TarEntry{{Name: "bin", Typeflag: '2', Linkname: "/etc/passwd"}}, true
	}
	return []zzvfs.TarEntry{reg("LICENSE/../bin"), reg("docs/README")}, true
}

// ---- snapshot codec for the registry's documents ----

func gClone(v any) any {
	switch t := v.(type) {
	case *Manifest:
		return gClone(*t)
	case Manifest:
		c := Manifest{SchemaVersion: t.SchemaVersion}
		if t.Installs != nil {
			c.Installs = map[string]ManifestEntry{}
			for k, e := range t.Installs {
				c.Installs[k] = e
			}
		}
		return c
	case CacheMeta, AuditEvent, policy.UnsignedInstallEvent, index.State:
		return t
	case *index.State:
		return *t
	}
	return nil
}

func gAssign(dst, src any) bool {
	switch d := dst.(type) {
	case *Manifest:
		s, ok := src.(Manifest)
		if ok {
			*d = s
		}
		return ok
	case *CacheMeta:
		s, ok := src.(CacheMeta)
		if ok {
			*d = s
		}
		return ok
	case *index.State:
		s, ok := src.(index.State)
		if ok {
			*d = s
		}
		return ok
	}
	return false
}

func newGateWorld() *gWorld {
	w := &gWorld{fs: zzvfs.New(), faultAt: -1}
	gW = w
	zzvfs.Cur = w.fs
	w.fs.Clone, w.fs.Assign, w.fs.Untar = gClone, gAssign, w.untar
	w.fs.PutDir(gTarget)
	w.fs.Put(gTarget+"/conduit-connector-other_2.0.0", []byte(gOtherBin))
	w.fs.Put("/etc/passwd", []byte("root"))
	w.fs.Created = nil
	w.baseline = map[string]bool{}
	for _, p := range w.fs.Paths() {
		w.baseline[p] = true
	}
	return w
}

func (w *gWorld) opts() InstallOptions {
	return InstallOptions{
		Name: "foo", Version: "1.0.0", ConnectorsPath: gTarget,
		IndexFile: "unused", ArtifactVerifier: gVerifier{w}, IndexVerifier: FailClosedVerifier{},
		InstalledBy: "op", LockTimeout: time.Second,
	}
}

func (w *gWorld) resolved() (*index.VerifiedIndex, resolvedArtifact) {
	vi := &index.VerifiedIndex{Verified: true, RootVerified: true}
	vi.Payload.Index.Version = 7
	ra := resolvedArtifact{
		name: "foo", version: "1.0.0",
		artifact: &index.Artifact{OS: "linux", Arch: "amd64", URL: "https://example.invalid/foo.tar.gz",
			SHA256: w.declared, Size: 64},
	}
	return vi, ra
}

// manifestEntry reads the durable manifest (what a crash right now would leave).
func (w *gWorld) manifestEntry() (ManifestEntry, bool) {
	data, ok, torn := w.fs.Durable(manifestPath(gTarget))
	if !ok {
		return ManifestEntry{}, false
	}
	verifAssert(!torn, "c19-manifest-torn")
	id, ok := zzvfs.DocID(data)
	verifAssert(ok, "c19-manifest-partial-document")
	m, _ := w.fs.Doc(id).(Manifest)
	e, ok := m.Installs["foo@1.0.0"]
	return e, ok
}

// invariant is the safety oracle; it holds at every instant (crash points) and at the end.
func (w *gWorld) invariant() {
	fs := w.fs
	accepted := false
	for _, c := range w.calls {
		// the verifier is only ever shown bytes that passed the corruption check
		verifAssert(hex.EncodeToString(c.digest[:]) == normalizeDigestHex(w.declared), "c19-verifier-saw-unchecked-digest")
		if c.signed {
			accepted = true
		}
	}
	for _, p := range fs.Paths() {
		if w.baseline[p] || p == gTarget+"/.registry" || strings.HasPrefix(p, gTarget+"/.registry/") {
			continue
		}
		// anything else directly in the install directory is an installed artifact
		verifAssert(p == gFinal, "c19-unexpected-file-in-install-dir")
		data, _, _ := fs.Content(p)
		verifAssert(string(data) == gGoodBin, "c19-installed-bytes-not-the-declared-artifact")
		verifAssert(normalizeDigestHex(w.declared) == hex.EncodeToString(func() []byte { s := gSum(gGoodArc); return s[:] }()), "c19-installed-without-digest-match")
		verifAssert(accepted || (w.unsigned && w.policyOK), "c19-installed-without-trust-decision")
	}
	d, _, _ := fs.Content("/etc/passwd")
	verifAssert(string(d) == "root", "c19-outside-file-modified")
	d, _, _ = fs.Content(gTarget + "/conduit-connector-other_2.0.0")
	verifAssert(string(d) == gOtherBin, "c19-other-artifact-modified")
	if e, ok := w.manifestEntry(); ok {
		ex, _ := fs.Exists(gFinal)
		verifAssert(ex, "c19-manifest-entry-without-artifact")
		verifAssert(e.Signed == accepted && e.AllowUnsigned == !accepted, "c19-manifest-trust-fields-wrong")
	}
}

func (w *gWorld) step(op, p string) {
	if w.crashCheck {
		w.invariant()
	}
}

func (w *gWorld) fault(op, p string) bool {
	if w.armed > 0 {
		k := verifConcrete(verifChoice("failAt", w.armed+1))
		w.armed = 0
		w.faultAt = w.ops + k - 1
		if k == 0 {
			w.faultAt = -1
		}
	}
	w.ops++
	if w.ops-1 == w.faultAt {
		w.fired = true
		return true
	}
	return false
}

// refPolicy is the documented unsigned-install policy (plan-v2 §6).
func refPolicy(o InstallOptions) bool {
	if !o.OperatorAllowUnsigned || o.IsMCP {
		return false
	}
	if !o.TTY || o.CIEnv {
		return o.EnvVarSet
	}
	return o.TypedConfirmation
}

func (w *gWorld) endChecks(res *InstallResult, err error, o InstallOptions) {
	w.invariant()
	ex, _ := w.fs.Exists(gFinal)
	if err == nil {
		verifAssert(res != nil, "c19-nil-result")
		verifAssert(ex, "c19-success-without-artifact")
		e, ok := w.manifestEntry()
		verifAssert(ok, "c19-success-without-manifest-entry")
		verifAssert(e.Digest == "sha256:"+normalizeDigestHex(w.declared), "c19-manifest-digest-wrong")
		if !e.Signed {
			_, sz, ok := w.fs.Content(unsignedInstallsLogPath(gTarget))
			verifAssert(ok && sz > 0, "c19-unsigned-install-not-logged")
		}
		_, sz, ok := w.fs.Content(auditLogPath(gTarget))
		verifAssert(ok && sz > 0, "c19-install-not-audited")
		verifCover("installed")
	} else {
		verifCover("refused")
	}
	// the private staging directory does not outlive the call (unless the
	// clean-up itself was the operation that failed)
	for _, p := range w.fs.Paths() {
		verifAssert(w.fired || !strings.HasPrefix(p, stagingRootPath(gTarget)+"/"), "c19-staging-left-behind")
	}
	verifAssert(!w.fs.Locked(TargetLockPath(gTarget, "foo")), "c19-target-lock-leaked")
	verifAssert(!w.fs.Locked(ManifestLockPath(gTarget)), "c19-manifest-lock-leaked")
}

// VerifC19Gate: every combination of download / cache / digest / verifier /
// policy / archive outcomes, healthy file system.
func VerifC19Gate() {
	w := newGateWorld()
	good := gSum(gGoodArc)
	w.declared = hex.EncodeToString(good[:])
	switch verifConcrete(verifChoice("declared", 5)) {
	case 1:
		w.declared = "sha256:" + w.declared
	case 2:
		w.declared = "" // the index declares no digest
	case 3:
		w.declared = "sha256:"
	case 4:
		w.declared = w.declared[:2] // a truncated digest (first byte only)
	}
	w.dlMode = verifConcrete(verifChoice("download", 3))
	switch verifConcrete(verifChoice("cache", 3)) {
	case 1: // a valid cache entry
		w.fs.Put(cacheArtifactPath(gTarget, normalizeDigestHex(w.declared)), []byte(gGoodArc))
	case 2: // a poisoned cache entry under the declared digest
		w.fs.Put(cacheArtifactPath(gTarget, normalizeDigestHex(w.declared)), []byte(gEvilArc))
	}
	w.archive = verifConcrete(verifChoice("archive", 5))
	o := w.opts()
	o.AllowUnsigned = verifBool("allowUnsigned")
	if o.AllowUnsigned {
		o.TTY, o.CIEnv, o.IsMCP = verifBool("tty"), verifBool("ci"), verifBool("mcp")
		o.EnvVarSet, o.TypedConfirmation, o.OperatorAllowUnsigned = verifBool("env"), verifBool("typed"), verifBool("operator")
		w.unsigned, w.policyOK = true, refPolicy(o)
	} else {
		w.verMode = verifConcrete(verifChoice("verifier", 3))
	}
	w.fs.Created = nil
	vi, ra := w.resolved()

	res, err := installArtifact(context.Background(), o, gTarget, connectorTarget(), vi, ra)

	w.endChecks(res, err, o)
	if err == nil && o.AllowUnsigned {
		verifCover("unsigned-installed")
	}
	// a second install of the same version is a no-op that reports the first
	if err == nil {
		before := len(w.calls)
		res2, err2 := installArtifact(context.Background(), o, gTarget, connectorTarget(), vi, ra)
		verifAssert(err2 == nil && res2.AlreadyInstalled && len(w.calls) == before, "c19-reinstall-not-idempotent")
		w.invariant()
	}
	verifObserve("gate", err == nil, len(w.calls), w.downloads)
}

// VerifC19Faults: a fixed acceptable install (signed, or unsigned and allowed)
// where any one file-system operation fails and a crash is observed at every step.
func VerifC19Faults() {
	w := newGateWorld()
	good := gSum(gGoodArc)
	w.declared = hex.EncodeToString(good[:])
	o := w.opts()
	if verifBool("unsigned") {
		o.AllowUnsigned, o.OperatorAllowUnsigned, o.EnvVarSet = true, true, true
		w.unsigned, w.policyOK = true, refPolicy(o)
	}
	if verifBool("cached") {
		w.fs.Put(cacheArtifactPath(gTarget, normalizeDigestHex(w.declared)), []byte(gGoodArc))
	}
	if verifBool("reinstallOther") {
		// a manifest already exists (previous install of another artifact)
		m := &Manifest{SchemaVersion: ManifestSchemaVersion, Installs: map[string]ManifestEntry{"other@2.0.0": {Name: "other", Version: "2.0.0"}}}
		data, _ := zzvfs.JSONMarshal(m)
		w.fs.Put(manifestPath(gTarget), data)
		w.hadOther = true
	}
	w.fs.Created = nil
	w.armed = verifParam("ops", 60)
	w.crashCheck = true
	w.fs.Fault, w.fs.Step = w.fault, w.step
	vi, ra := w.resolved()

	res, err := installArtifact(context.Background(), o, gTarget, connectorTarget(), vi, ra)

	w.fs.Fault, w.fs.Step = nil, nil
	if err != nil {
		verifAssert(w.fired, "c19-spurious-install-error")
		verifCover("failed")
		w.invariant()
		// previous manifest content survives a failed install
		if w.hadOther {
			has, _ := w.manifestOther()
			verifAssert(has, "c19-failed-install-lost-manifest-entries")
		}
	} else {
		w.endChecks(res, err, o)
	}
	verifObserve("faults", err == nil, w.fired)
}

// manifestOther reports whether a manifest exists and still lists other@2.0.0
// (only meaningful when the world started with that manifest).
func (w *gWorld) manifestOther() (bool, bool) {
	data, ok, _ := w.fs.Durable(manifestPath(gTarget))
	if !ok {
		return false, false
	}
	id, ok := zzvfs.DocID(data)
	if !ok {
		return false, true
	}
	m, _ := w.fs.Doc(id).(Manifest)
	_, has := m.Installs["other@2.0.0"]
	return has, true
}
