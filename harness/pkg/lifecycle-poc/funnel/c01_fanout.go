//go:build verif

package funnel

import "context"

func init() {
	verifRegister("VerifC01Fanout", VerifC01Fanout)
	verifRegister("VerifC08Chain", VerifC08Chain)
	verifRegister("VerifC08Chain2", VerifC08Chain2)
	verifRegister("VerifC08FilterShort", VerifC08FilterShort)
	verifRegister("VerifC08FilterTransform", VerifC08FilterTransform)
	verifRegister("VerifC09Proc", VerifC09Proc)
	verifRegister("VerifC09Dest", VerifC09Dest)
	verifRegister("VerifC09DLQ", VerifC09DLQ)
}

// vDLQChoice picks a DLQ window: size in 0..3 (0 = no limit), threshold a
// symbolic 64-bit int constrained only by the documented configuration rule
// (0 <= threshold, and threshold < size when size > 0).
func vDLQChoice() (int, int) {
	size := verifConcrete(verifChoice("dlqsize", 4))
	th := verifInt("dlqth")
	verifAssume(th >= 0)
	if size > 0 {
		verifAssume(th < size)
	}
	return size, th
}

// VerifC01Fanout: one batch of N records through M destinations (no
// processors), every per-record destination outcome and ack chunking
// symbolic; DLQ outcomes symbolic.
func VerifC01Fanout() {
	n := verifParam("N", 2)
	m := verifParam("M", 2)
	size, th := vDLQChoice()
	w, worker := buildWorker(vCfg{N: n, S: 0, M: m, dlqSize: size, dlqTh: th})
	err := worker.doTask(context.Background(), worker.FirstTask, &Batch{}, newRunAckNacker(worker))
	w.checkEnd(err)
	verifObserve("stopped", err != nil)
	if err == nil {
		verifCover("clean")
	} else {
		verifCover("stopped")
	}
}

// VerifC08Chain: N records through S processor stages with every result kind,
// then M destinations.
func VerifC08Chain() {
	n := verifParam("N", 2)
	s := verifParam("S", 1)
	m := verifParam("M", 1)
	size, th := vDLQChoice()
	w, worker := buildWorker(vCfg{N: n, S: s, M: m, dlqSize: size, dlqTh: th})
	err := worker.doTask(context.Background(), worker.FirstTask, &Batch{}, newRunAckNacker(worker))
	w.checkEnd(err)
	verifObserve("stopped", err != nil)
	if err == nil {
		verifCover("clean")
	} else {
		verifCover("stopped")
	}
}

// VerifC08Chain2: two chained stages (split/error/filter in the first, then
// split/error again) so that sub-batches grow and shrink between tasks; the
// destinations ack in one chunk and reject at most one record.
func VerifC08Chain2() {
	n := verifParam("N", 2)
	m := verifParam("M", 1)
	w, worker := buildWorker(vCfg{N: n, S: 2, M: m, dlqSize: 0, dlqTh: 0, destSimple: true,
		stageKinds: [][]int{{vkSingle, vkError, vkMulti2, vkFilter}, {vkSingle, vkError, vkMulti2}}})
	err := worker.doTask(context.Background(), worker.FirstTask, &Batch{}, newRunAckNacker(worker))
	w.checkEnd(err)
	verifObserve("stopped", err != nil)
	if err == nil {
		verifCover("clean")
	} else {
		verifCover("stopped")
	}
}

// VerifC08FilterShort: three records, a first stage that filters some of them
// and a second stage that answers short (the rest is retried) or splits, so
// that retried ranges span records an earlier stage removed.
func VerifC08FilterShort() {
	n := verifParam("N", 3)
	m := verifParam("M", 1)
	w, worker := buildWorker(vCfg{N: n, S: 2, M: m, dlqSize: 0, dlqTh: 0, destSimple: true,
		stageKinds: [][]int{{vkSingle, vkFilter}, {vkSingle, vkNil, vkMulti2, vkError}}})
	err := worker.doTask(context.Background(), worker.FirstTask, &Batch{}, newRunAckNacker(worker))
	w.checkEnd(err)
	verifObserve("stopped", err != nil)
	if err == nil {
		verifCover("clean")
	} else {
		verifCover("stopped")
	}
}

// VerifC08FilterTransform: four records, a first stage that filters any subset
// (including adjacent ones) and a second stage that rewrites every record it is
// given: each surviving record is delivered once, in order, in the version the
// second stage produced.
func VerifC08FilterTransform() {
	n := verifParam("N", 4)
	w, worker := buildWorker(vCfg{N: n, S: 2, M: verifParam("M", 1), dlqSize: 0, dlqTh: 0, destSimple: true,
		stageKinds: [][]int{{vkSingle, vkFilter}, {vkSingle}}})
	err := worker.doTask(context.Background(), worker.FirstTask, &Batch{}, newRunAckNacker(worker))
	w.checkEnd(err)
	if err == nil {
		verifCover("clean")
	} else {
		verifCover("stopped")
	}
}

// VerifC09Proc: malformed processor replies (longer than the input, empty,
// nil entries) over S chained stages. The oracle is "no panic, no hang" plus
// the C01/C04 assertions inside the fake source: affected records stay
// unacknowledged.
func VerifC09Proc() {
	n := verifParam("N", 2)
	s := verifParam("S", 2)
	w, worker := buildWorker(vCfg{N: n, S: s, M: 1, dlqSize: 0, dlqTh: 0, badProc: true, destSimple: true, kinds: []int{vkSingle, vkFilter, vkNil}})
	err := worker.doTask(context.Background(), worker.FirstTask, &Batch{}, newRunAckNacker(worker))
	w.checkEnd(err)
	if err == nil {
		verifCover("clean")
	} else {
		verifCover("stopped")
	}
}

// VerifC09Dest: malformed destination replies (write/ack errors, empty,
// foreign or too many acks), M destinations, no processors.
func VerifC09Dest() {
	n := verifParam("N", 2)
	m := verifParam("M", 1)
	size, th := vDLQChoice()
	w, worker := buildWorker(vCfg{N: n, S: 0, M: m, dlqSize: size, dlqTh: th, badDest: true})
	err := worker.doTask(context.Background(), worker.FirstTask, &Batch{}, newRunAckNacker(worker))
	w.checkEnd(err)
	if err == nil {
		verifCover("clean")
	} else {
		verifCover("stopped")
	}
}

// VerifC09DLQ: the DLQ connector itself misbehaves while records are being
// dead-lettered.
func VerifC09DLQ() {
	n := verifParam("N", 2)
	size, th := vDLQChoice()
	w, worker := buildWorker(vCfg{N: n, S: 0, M: 1, dlqSize: size, dlqTh: th, badDLQ: true})
	err := worker.doTask(context.Background(), worker.FirstTask, &Batch{}, newRunAckNacker(worker))
	w.checkEnd(err)
	if err == nil {
		verifCover("clean")
	} else {
		verifCover("stopped")
	}
}
