//go:build verif

package funnel

// C07 (v2 engine): the dlqWindow arithmetic against a reference that literally
// keeps the list of outcomes.

func init() {
	verifRegister("VerifC07WindowSeq", VerifC07WindowSeq)
	verifRegister("VerifC07WindowStep", VerifC07WindowStep)
}

// refTolerated says whether a nack appended to hist is tolerated: the nacks
// among the most recent n outcomes, counting it, do not exceed t.
// n == 0 removes the limit.
func refTolerated(hist []bool, n, t int) bool {
	if n == 0 {
		return true
	}
	cnt := 1
	for j := 1; j < n && len(hist)-j >= 0; j++ {
		if hist[len(hist)-j] {
			cnt++
		}
	}
	return cnt <= t
}

// VerifC07WindowSeq drives a fresh window with K outcomes, partitioned into
// batches of equal outcomes, and compares every decision with the reference.
func VerifC07WindowSeq() {
	maxN := verifParam("maxN", 4)
	K := verifParam("K", 6)
	n := verifConcrete(verifChoice("size", maxN+1))
	t := verifInt("threshold")
	// documented configuration precondition: threshold >= 0, and threshold < size when size > 0
	verifAssume(t >= 0)
	if n > 0 {
		verifAssume(t < n)
	}
	w := newDLQWindow(n, t)
	var hist []bool
	k := 0
	for k < K {
		nack := verifBool("nack")
		// batch length 1..3 of the same outcome
		maxLen := K - k
		if maxLen > 3 {
			maxLen = 3
		}
		l := 1 + verifConcrete(verifChoice("len", maxLen))
		if !nack {
			w.Ack(l)
			for j := 0; j < l; j++ {
				hist = append(hist, false)
			}
			k += l
			continue
		}
		got := w.Nack(l)
		// reference: accept one by one until the first refusal
		want := 0
		for j := 0; j < l; j++ {
			if !refTolerated(hist, n, t) {
				break
			}
			hist = append(hist, true)
			want++
		}
		verifObserve("nack", l, got, want)
		verifAssert(got == want, "window-decision")
		if got < l {
			// refused: pipeline stops; the window must stay frozen for any further nack
			verifAssert(w.Nack(1) == 0, "frozen-after-refusal")
			verifCover("refused")
			return
		}
		k += l
	}
	verifCover("end")
}

// VerifC07WindowStep is the inductive step: an arbitrary window state that
// satisfies the representation invariant, one store call, invariant and
// decision checked against the "last N outcomes" reading of the ring.
func VerifC07WindowStep() {
	maxN := verifParam("maxN", 4)
	n := 1 + verifConcrete(verifChoice("size", maxN))
	t := verifInt("threshold")
	verifAssume(t >= 0)
	verifAssume(t < n || n == 1)
	cur := verifConcrete(verifChoice("cursor", n))
	w := &dlqWindow{window: make([]bool, n), cursor: cur, nackThreshold: t}
	nacks := 0
	for j := 0; j < n; j++ {
		b := verifBool("w")
		w.window[j] = b
		nacks += verifB2I(b)
	}
	w.nackCount = nacks
	w.ackCount = n - nacks
	verifAssume(nacks <= t) // not frozen
	// the ring read oldest..newest
	old := make([]bool, n)
	for j := 0; j < n; j++ {
		old[j] = w.window[(cur+1+j)%n]
	}
	nacked := verifBool("nacked")
	count := 1 + verifConcrete(verifChoice("count", 3))
	// through the public operations (Ack has shortcuts of its own)
	got := count
	if nacked {
		got = w.Nack(count)
	} else {
		w.Ack(count)
	}

	// reference over the outcome list
	hist := old
	want := 0
	refused := false
	for j := 0; j < count; j++ {
		if nacked {
			cnt := 1
			for q := 1; q < n; q++ {
				cnt += verifB2I(hist[len(hist)-q])
			}
			if cnt > t {
				refused = true
				break
			}
		}
		hist = append(hist, nacked)
		want++
	}
	verifAssert(got == want, "step-decision")
	// invariant afterwards
	verifAssert(w.cursor >= 0 && w.cursor < n, "cursor-range")
	if !refused {
		pc := 0
		for j := 0; j < n; j++ {
			pc += verifB2I(w.window[j])
		}
		verifAssert(w.nackCount == pc, "nackCount-is-popcount")
		verifAssert(w.ackCount == n-pc, "ackCount")
		// ring content is the last n outcomes
		for j := 0; j < n; j++ {
			verifAssert(w.window[(w.cursor+1+j)%n] == hist[len(hist)-n+j], "ring-content")
		}
		verifCover("accepted")
	} else {
		verifAssert(w.nackThreshold < w.nackCount, "frozen")
		verifCover("refused")
	}
}
