//go:build verif

package funnel

// Thin exported wrappers around the unexported DLQ window (see the parity
// harness in package dlqparity).

func VerifNewWindow(size, threshold int) *dlqWindow { return newDLQWindow(size, threshold) }
func VerifWindowAck(w *dlqWindow, n int)            { w.Ack(n) }
func VerifWindowNack(w *dlqWindow, n int) int       { return w.Nack(n) }
func VerifWindowCounts(w *dlqWindow) (nacks, acks int) {
	return w.nackCount, w.ackCount
}
