//go:build verif

package funnel

// A small "world" around one real funnel.Worker: fake source, fake processor
// stages, fake destinations and a fake DLQ destination. Every fake consults
// symbolic decisions and records what it was told; the oracles of C01, C04,
// C05, C07, C08 and C09 (arch-v2 engine) read those records.

import (
	"context"
	"fmt"
	"strconv"
	"strings"
	"sync"
	"time"

	"github.com/conduitio/conduit-commons/opencdc"
	sdk "github.com/conduitio/conduit-processor-sdk"
	"github.com/conduitio/conduit/pkg/connector"
	"github.com/conduitio/conduit/pkg/foundation/cerrors"
	"github.com/conduitio/conduit/pkg/foundation/log"
)

// processor result kinds
const (
	vkSingle      = iota
	vkSingleRepos // single, with the record position rewritten
	vkFilter
	vkError
	vkMulti0
	vkMulti1
	vkMulti2
	vkNil // no result at all for this record (retry)
	vkNumKinds
)

// destination misbehaviours (chosen once per Write)
const (
	vmNone = iota
	vmWriteErr
	vmAckErr
	vmEmptyReply
	vmWrongPos
	vmTooMany
	vmNumMis
)

type vWorld struct {
	mu             sync.Mutex
	N              int
	leaves         [][]string // per source record: lineage ids of the pieces that must reach every destination
	errored        []bool     // a processor returned an error for (a piece of) the record
	src            *vSource
	dests          []*vDest
	dlq            *vDest
	procs          []*vProc
	allowBadShapes bool
	dlqSize, dlqTh int
}

func vPos(i int) opencdc.Position { return opencdc.Position("p" + strconv.Itoa(i)) }

func vIdx(p opencdc.Position) int {
	s := string(p)
	if len(s) < 2 || s[0] != 'p' {
		return -1
	}
	n, err := strconv.Atoi(s[1:])
	if err != nil {
		return -1
	}
	return n
}

func vRecord(i int) opencdc.Record {
	return opencdc.Record{
		Position:  vPos(i),
		Operation: opencdc.OperationCreate,
		Metadata:  opencdc.Metadata{"lineage": strconv.Itoa(i)},
		Key:       opencdc.RawData("k" + strconv.Itoa(i)),
	}
}

func vLineage(r opencdc.Record) string { return r.Metadata["lineage"] }

func vRoot(lineage string) int {
	s := lineage
	if k := strings.IndexByte(s, '/'); k >= 0 {
		s = s[:k]
	}
	n, err := strconv.Atoi(s)
	if err != nil {
		return -1
	}
	return n
}

func newWorld(n int) *vWorld {
	w := &vWorld{N: n, leaves: make([][]string, n), errored: make([]bool, n)}
	for i := 0; i < n; i++ {
		w.leaves[i] = []string{strconv.Itoa(i)}
	}
	return w
}

func (w *vWorld) replaceLeaf(lineage string, with []string) {
	i := vRoot(lineage)
	var out []string
	for _, l := range w.leaves[i] {
		if l == lineage {
			out = append(out, with...)
		} else {
			out = append(out, l)
		}
	}
	w.leaves[i] = out
}

// ---- source ----

type vSource struct {
	w        *vWorld
	recs     []opencdc.Record
	reads    int
	acked    []int // source indices acked, in order
	ackErr   bool
	tornDown int
}

func (s *vSource) ID() string                     { return "src" }
func (s *vSource) Open(context.Context) error     { return nil }
func (s *vSource) Errors() <-chan error           { return nil }
func (s *vSource) Teardown(context.Context) error { s.tornDown++; return nil }

func (s *vSource) Read(ctx context.Context) ([]opencdc.Record, error) {
	s.reads++
	if s.reads == 1 {
		return s.recs, nil
	}
	return nil, context.Canceled
}

// Ack is where C01 and C04 are asserted: at the instant a position is handed
// to the source connector.
func (s *vSource) Ack(ctx context.Context, positions []opencdc.Position) error {
	w := s.w
	w.mu.Lock()
	defer w.mu.Unlock()
	for _, p := range positions {
		i := vIdx(p)
		verifAssert(i >= 0 && i < w.N, "c04-ack-of-unknown-position")
		verifAssert(i == len(s.acked), "c04-ack-order")
		verifAssert(w.handled(i), "c01-ack-before-confirmation")
		// C03 reads the same event as "a restart resumes past a record nobody holds"
		verifAssert(w.handled(i), "c03-acknowledged-record-not-held-anywhere")
		if i >= 0 && i < w.N && !w.handled(i) {
			// the same event seen from the failure-handling side: a record that a
			// destination rejected / a processor failed is acknowledged although it
			// was never stored in the DLQ
			verifAssert(!w.rejected(i), "c07-rejected-record-acked-without-dlq")
			verifAssert(!w.errored[i], "c08-failed-record-acked-without-dlq")
		}
		s.acked = append(s.acked, i)
	}
	return nil
}

// handled says whether record i was confirmed by every destination, confirmed
// written to the DLQ, or filtered out.
func (w *vWorld) handled(i int) bool {
	if w.dlq.ackedRoot(i) > 0 {
		return true
	}
	if w.errored[i] {
		return false
	}
	for _, d := range w.dests {
		for _, l := range w.leaves[i] {
			if !d.acked[l] {
				return false
			}
		}
	}
	return true
}

// rejected says whether a destination negatively acknowledged (a piece of)
// record i or a processor failed it.
func (w *vWorld) rejected(i int) bool {
	if w.errored[i] {
		return true
	}
	for _, d := range w.dests {
		for _, l := range w.leaves[i] {
			if d.nacked[l] {
				return true
			}
		}
	}
	return false
}

// ---- processor ----

type vProc struct {
	w     *vWorld
	id    string
	calls int
	kinds []int // result kinds this stage may use (nil: all)
}

func (p *vProc) Open(context.Context) error     { return nil }
func (p *vProc) Teardown(context.Context) error { return nil }

func (p *vProc) Process(ctx context.Context, recs []opencdc.Record) []sdk.ProcessedRecord {
	w := p.w
	w.mu.Lock()
	defer w.mu.Unlock()
	p.calls++
	out := make([]sdk.ProcessedRecord, 0, len(recs)+1)
	for _, r := range recs {
		var kind int
		if p.calls == 1 {
			if p.kinds != nil {
				kind = p.kinds[verifConcrete(verifChoice(p.id+".kind", len(p.kinds)))]
			} else {
				kind = verifChoice(p.id+".kind", vkNumKinds)
			}
		} else {
			// retries: either resolve or stall again
			if verifBool(p.id + ".retry-nil") {
				kind = vkNil
			} else {
				kind = vkSingle
			}
		}
		lin := vLineage(r)
		// every record a stage lets through carries that stage's stamp
		stamp := "st." + p.id
		piece := func(k int) opencdc.Record {
			c := r.Clone()
			c.Metadata["lineage"] = lin + "/" + strconv.Itoa(k)
			c.Metadata[stamp] = "1"
			return c
		}
		switch kind {
		case vkSingle:
			c := r.Clone()
			c.Metadata[stamp] = "1"
			out = append(out, sdk.SingleRecord(c))
		case vkSingleRepos:
			c := r.Clone()
			c.Position = opencdc.Position("x" + lin)
			c.Metadata[stamp] = "1"
			out = append(out, sdk.SingleRecord(c))
		case vkFilter:
			w.replaceLeaf(lin, nil)
			out = append(out, sdk.FilterRecord{})
		case vkError:
			w.errored[vRoot(lin)] = true
			out = append(out, sdk.ErrorRecord{Error: cerrors.New("proc error " + lin)})
		case vkMulti0:
			w.replaceLeaf(lin, nil)
			out = append(out, sdk.MultiRecord{})
		case vkMulti1:
			w.replaceLeaf(lin, []string{lin + "/0"})
			out = append(out, sdk.MultiRecord{piece(0)})
		case vkMulti2:
			w.replaceLeaf(lin, []string{lin + "/0", lin + "/1"})
			out = append(out, sdk.MultiRecord{piece(0), piece(1)})
		default:
			out = append(out, nil)
		}
	}
	if w.allowBadShapes {
		switch verifChoice(p.id+".shape", 3) {
		case 1: // more results than records
			out = append(out, sdk.SingleRecord(vRecord(99)))
		case 2: // no results at all
			out = nil
		}
	}
	return out
}

// ---- destination ----

type vDest struct {
	w        *vWorld
	id       string
	isDLQ    bool
	writes   []string        // lineage ids (DLQ: root index as string) in write order
	acked    map[string]bool // positively acknowledged lineage ids
	nacked   map[string]bool
	pending  []opencdc.Record // written, ack not yet handed out
	pendMis  int
	allowMis bool
	simple   bool // one ack chunk; at most one rejected record per write
	rejectAt int
	tornDown int
}

func newDest(w *vWorld, id string, isDLQ bool) *vDest {
	return &vDest{w: w, id: id, isDLQ: isDLQ, acked: map[string]bool{}, nacked: map[string]bool{}}
}

func (d *vDest) ID() string                     { return d.id }
func (d *vDest) Open(context.Context) error     { return nil }
func (d *vDest) Errors() <-chan error           { return nil }
func (d *vDest) Teardown(context.Context) error { d.tornDown++; return nil }

// key identifies a written record: its lineage, or for the DLQ the source
// index of the dead-lettered original record.
func (d *vDest) key(r opencdc.Record) string {
	if d.isDLQ {
		return strconv.Itoa(vDLQRoot(r))
	}
	return vLineage(r)
}

// vDLQRoot returns the source index of the record a DLQ record carries (-1 if none).
func vDLQRoot(r opencdc.Record) int {
	after, ok := r.Payload.After.(opencdc.StructuredData)
	if !ok {
		return -1
	}
	md, ok := after["metadata"].(map[string]interface{})
	if !ok {
		return -1
	}
	lin, ok := md["lineage"].(string)
	if !ok {
		return -1
	}
	return vRoot(lin)
}

func (d *vDest) ackedRoot(i int) int {
	n := 0
	for k := range d.acked {
		if vRoot(k) == i {
			n++
		}
	}
	return n
}

func (d *vDest) Write(ctx context.Context, recs []opencdc.Record) error {
	w := d.w
	w.mu.Lock()
	defer w.mu.Unlock()
	verifAssert(len(d.pending) == 0, "c09-write-while-acks-outstanding")
	mis := vmNone
	if d.allowMis {
		mis = verifChoice(d.id+".mis", vmNumMis)
	}
	if mis == vmWriteErr {
		return cerrors.New(d.id + ": write failed")
	}
	for _, r := range recs {
		k := d.key(r)
		if !d.isDLQ {
			// C05: per-source order at every destination, no record written twice
			i := vRoot(k)
			verifAssert(i >= 0 && i < w.N, "c05-unknown-record-written")
			// C08: only the pieces the processors produced for a record are delivered
			// (not a record a stage filtered out, nor the original of a split record)
			if i >= 0 && i < w.N && !w.allowBadShapes {
				isLeaf := false
				for _, l := range w.leaves[i] {
					if l == k {
						isLeaf = true
					}
				}
				verifAssert(isLeaf, "c08-delivered-record-is-not-a-processor-output")
				// C05 reads the same event as "filtered or dead-lettered records are absent"
				verifAssert(isLeaf || len(w.leaves[i]) > 0, "c05-filtered-record-written")
				// (only for an unsplit record: sibling pieces of a failed piece may be delivered)
				verifAssert(!(w.errored[i] && k == strconv.Itoa(i)), "c05-dead-lettered-record-written")
				// ... and it is the version every processor stage produced, not a stale copy
				for _, pr := range w.procs {
					verifAssert(r.Metadata["st."+pr.id] == "1", "c08-delivered-record-skipped-a-processor")
				}
			}
			for _, prev := range d.writes {
				verifAssert(prev != k, "c05-record-written-twice")
			}
			if len(d.writes) > 0 {
				last := d.writes[len(d.writes)-1]
				verifAssert(vRoot(last) <= i, "c05-source-order-at-destination")
				if vRoot(last) == i {
					verifAssert(last < k, "c05-piece-order-at-destination")
				}
			}
		} else {
			// C07: dead-lettered records of one source reach the DLQ in source order, once
			i := vDLQRoot(r)
			verifAssert(i >= 0 && i < w.N, "c07-dlq-record-carries-original")
			// C07 window: tolerated only while the rejections among the most recent
			// window-size outcomes, counting this one, do not exceed the threshold
			verifAssert(w.dlqSize == 0 || w.nacksInWindow(i) <= w.dlqTh, "c07-nack-tolerated-beyond-threshold")
			// a record already confirmed by the DLQ is never written to it again
			// (a retry after a rejected/failed write is not a second copy)
			verifAssert(!d.acked[k], "c07-dlq-written-twice")
			if len(d.writes) > 0 {
				last, _ := strconv.Atoi(d.writes[len(d.writes)-1])
				verifAssert(last <= i, "c07-dlq-source-order")
			}
			// carries the original record, the error and the failing component
			_, hasErr := r.Metadata[opencdc.MetadataConduitDLQNackError]
			_, hasNode := r.Metadata[opencdc.MetadataConduitDLQNackNodeID]
			verifAssert(hasErr && hasNode, "c07-dlq-record-metadata")
		}
		d.writes = append(d.writes, k)
	}
	d.pending = append([]opencdc.Record(nil), recs...)
	d.pendMis = mis
	if d.simple {
		d.rejectAt = verifConcrete(verifChoice(d.id+".reject", len(recs)+1)) - 1
	}
	return nil
}

func (d *vDest) Ack(ctx context.Context) ([]connector.DestinationAck, error) {
	w := d.w
	w.mu.Lock()
	defer w.mu.Unlock()
	if len(d.pending) == 0 {
		// the engine asked for more acks than records were written
		return nil, cerrors.New(d.id + ": no acks outstanding")
	}
	switch d.pendMis {
	case vmAckErr:
		return nil, cerrors.New(d.id + ": ack stream failed")
	case vmEmptyReply:
		return nil, nil
	case vmWrongPos:
		return []connector.DestinationAck{{Position: opencdc.Position("zz")}}, nil
	case vmTooMany:
		var acks []connector.DestinationAck
		for _, r := range d.pending {
			acks = append(acks, connector.DestinationAck{Position: r.Position})
		}
		acks = append(acks, connector.DestinationAck{Position: opencdc.Position("zz")})
		return acks, nil
	}
	// chunk of 1..len(pending) acks, each positive or negative
	n := 1
	if d.simple {
		n = len(d.pending)
	} else if len(d.pending) > 1 {
		n = 1 + verifConcrete(verifChoice(d.id+".chunk", len(d.pending)))
	}
	acks := make([]connector.DestinationAck, 0, n)
	for j, r := range d.pending[:n] {
		k := d.key(r)
		var nack bool
		if d.simple {
			nack = j == d.rejectAt
		} else {
			nack = verifBool(d.id + ".nack")
		}
		if nack {
			d.nacked[k] = true
			acks = append(acks, connector.DestinationAck{Position: r.Position, Error: cerrors.New(d.id + " rejected " + k)})
		} else {
			d.acked[k] = true
			acks = append(acks, connector.DestinationAck{Position: r.Position})
		}
	}
	d.pending = d.pending[n:]
	return acks, nil
}

func (w *vWorld) nacksInWindow(i int) int {
	n := w.dlqSize
	if w.dlqTh == 0 && n > 0 {
		n = 1
	}
	cnt := 1
	for j := i - 1; j >= 0 && j > i-n; j-- {
		if w.dlq.ackedRoot(j) > 0 {
			cnt++
		}
	}
	return cnt
}

// ---- building a worker ----

type vCfg struct {
	N, S, M        int
	dlqSize, dlqTh int
	kinds          []int
	stageKinds     [][]int
	destSimple     bool
	badProc        bool
	badDest        bool
	badDLQ         bool
}

func buildWorker(c vCfg) (*vWorld, *Worker) {
	w := newWorld(c.N)
	w.allowBadShapes = c.badProc
	w.dlqSize, w.dlqTh = c.dlqSize, c.dlqTh
	w.src = &vSource{w: w}
	for i := 0; i < c.N; i++ {
		w.src.recs = append(w.src.recs, vRecord(i))
	}
	logger := log.Nop()
	first := &TaskNode{Task: NewSourceTask("src", w.src, logger, NoOpConnectorMetrics{})}
	for s := 0; s < c.S; s++ {
		p := &vProc{w: w, id: "proc" + strconv.Itoa(s), kinds: c.kinds}
		if s < len(c.stageKinds) {
			p.kinds = c.stageKinds[s]
		}
		w.procs = append(w.procs, p)
		if err := first.AppendToEnd(&TaskNode{Task: NewProcessorTask(p.id, p, logger, NoOpProcessorMetrics{})}); err != nil {
			panic(err)
		}
	}
	var branches []*TaskNode
	for m := 0; m < c.M; m++ {
		d := newDest(w, "dest"+strconv.Itoa(m), false)
		d.allowMis = c.badDest
		d.simple = c.destSimple
		w.dests = append(w.dests, d)
		branches = append(branches, &TaskNode{Task: NewDestinationTask(d.id, d, logger, NoOpConnectorMetrics{})})
	}
	if err := first.AppendToEnd(branches...); err != nil {
		panic(err)
	}
	w.dlq = newDest(w, "dlq", true)
	w.dlq.allowMis = c.badDLQ
	dlq := NewDLQ("dlq", w.dlq, logger, NoOpConnectorMetrics{}, c.dlqSize, c.dlqTh)
	worker, err := NewWorker(first, dlq, logger, noopTimer{})
	if err != nil {
		panic(fmt.Sprintf("NewWorker: %v", err))
	}
	return w, worker
}

// checkEnd asserts the end-of-pass accounting (C08, C07, C04).
func (w *vWorld) checkEnd(err error) {
	s := w.src
	// C04: acked positions are a prefix of what was read, in order (checked at each ack too)
	for k, i := range s.acked {
		verifAssert(i == k, "c04-acked-prefix")
	}
	if err == nil {
		// C08: every source record ended with exactly one outcome
		verifAssert(len(s.acked) == w.N, "c08-record-without-outcome")
	}
	for i := 0; i < w.N; i++ {
		dl := w.dlq.ackedRoot(i)
		verifAssert(dl <= 1, "c07-dlq-more-than-once")
		if i < len(s.acked) {
			// an acknowledged record that failed anywhere must be in the DLQ
			failed := w.errored[i]
			for _, d := range w.dests {
				for k := range d.nacked {
					if vRoot(k) == i {
						failed = true
					}
				}
			}
			if failed {
				verifAssert(dl == 1, "c08-failed-piece-not-dead-lettered")
			} else {
				verifAssert(dl == 0, "c08-dead-lettered-without-failure")
			}
		}
	}
}

type noopTimer struct{}

func (noopTimer) Update(time.Duration)  {}
func (noopTimer) UpdateSince(time.Time) {}
