//go:build verif

package lifecycle

import (
	"context"
	"time"

	"github.com/conduitio/conduit/pkg/foundation/cerrors"
	lifecyclev1 "github.com/conduitio/conduit/pkg/lifecycle"
	"github.com/conduitio/conduit/pkg/pipeline"
)

func init() {
	verifRegister("VerifLifecycleStop", VerifLifecycleStop)
	verifRegister("VerifLifecycleFailure", VerifLifecycleFailure)
	verifRegister("VerifLifecycleForceStop", VerifLifecycleForceStop)
	verifRegister("VerifLifecycleUserStopVsFailure", VerifLifecycleUserStopVsFailure)
}

func lRecovery(maxRetries int64) lifecyclev1.ErrRecoveryCfg {
	if !verifSymbolic() {
		// real time in the native replay: wide enough that a stop request issued
		// right after a failure lands inside the back-off wait
		return lifecyclev1.ErrRecoveryCfg{MinDelay: 60 * time.Millisecond, MaxDelay: 120 * time.Millisecond, BackoffFactor: 2, MaxRetries: maxRetries, MaxRetriesWindow: 300 * time.Millisecond}
	}
	return lifecyclev1.ErrRecoveryCfg{MinDelay: 1000, MaxDelay: 2000, BackoffFactor: 2, MaxRetries: maxRetries, MaxRetriesWindow: 5000}
}

// VerifLifecycleStop: start, let records flow, StopAndWait at a chosen point
// of the record flow, then start again (C06, C11, C03 restart).
func VerifLifecycleStop() {
	K := verifParam("K", 2)
	M := verifParam("M", 1)
	stopAfter := verifConcrete(verifChoice("stopAfter", K+1))
	w, svc := newLifecycleWorld(lCfg{K: K, M: M, stopAfter: stopAfter, dlqSize: 0, dlqTh: 0, recovery: lRecovery(0)})
	ctx := context.Background()
	if err := svc.Start(ctx, "pl"); err != nil {
		verifFail("c11-start-failed")
	}
	verifAssert(w.lastStatus() == pipeline.StatusRunning, "c11-not-running-after-start")
	// a second start of a running pipeline is refused
	verifAssert(svc.Start(ctx, "pl") != nil, "c11-second-run-accepted")
	if served := w.src.served; served != nil {
		<-served
	}
	verifObserve("phase", 1)
	// either the user stops the pipeline, or the server shuts down (StopAll with
	// the graceful-shutdown reason, then Wait and the persister quiesce, as the
	// runtime does)
	system := verifBool("systemShutdown")
	if verifBool("slowDestination") {
		for _, d := range w.dests {
			d.slow = true
		}
	}
	var err error
	if system {
		_ = svc.StopAll(ctx, false)
		err = svc.Wait(lPick(time.Hour, 10*time.Second))
		lConnectorService{w}.WaitPersisted()
	} else {
		err = svc.StopAndWait(ctx, "pl")
	}
	if system {
		// every plugin answers and the DLQ tolerates every rejection: the drain completes
		verifAssert(err == nil, "c06-graceful-shutdown-of-healthy-pipeline-failed")
	}
	verifObserve("stop-and-wait", err != nil)
	if err == nil {
		// C06: when stop-and-wait returns without error everything is already true
		w.mu.Lock()
		emitted, acked := len(w.src.emitted), len(w.src.acks)
		stored := w.storedIdxLocked()
		w.mu.Unlock()
		// every record that reached a destination or the DLQ has its outcome and was
		// acknowledged to the source (a record read but not yet handed on when the
		// stop arrived may be dropped: it is read again after the restart)
		w.checkDrained()
		verifAssert(acked <= emitted, "c06-acknowledged-more-than-read")
		verifAssert(stored == acked-1, "c06-stored-position-not-last-ack")
		if system {
			verifAssert(w.lastStatus() == pipeline.StatusSystemStopped, "c11-status-after-graceful-stop")
		} else {
			verifAssert(w.lastStatus() == pipeline.StatusUserStopped, "c11-status-after-graceful-stop")
		}
		w.checkReleased("c06")
		verifCover("stopped")
		// C11/C03: the pipeline can be started again and resumes from the durable position
		w.mu.Lock()
		w.src.stopAfter, w.src.served = 0, nil
		w.mu.Unlock()
		for len(w.src.openCh) > 0 {
			<-w.src.openCh
		}
		if err := svc.Start(ctx, "pl"); err != nil {
			verifFail("c11-restart-refused")
		}
		verifObserve("phase", 2)
		<-w.src.openCh // the source node opens the plugin asynchronously
		verifObserve("phase", 3)
		w.mu.Lock()
		reopen := w.src.opens[len(w.src.opens)-1]
		w.mu.Unlock()
		verifAssert(reopen == acked-1, "c03-reopened-with-wrong-position")
		err2 := svc.StopAndWait(ctx, "pl")
		if err2 == nil {
			w.checkDrained()
			w.checkReleased("c06")
			verifCover("restarted")
		}
	} else {
		verifCover("stop-error")
	}
	// stop of a pipeline that is not running is refused, wait returns
	verifAssert(svc.Stop(ctx, "pl", false) != nil, "c11-stop-of-stopped-accepted")
	_ = svc.WaitPipeline("pl")
	_ = cerrors.New
}

// VerifLifecycleFailure: a destination rejects a record and the DLQ window
// tolerates none (fatal), or a destination write fails (transient).
func VerifLifecycleFailure() {
	K := verifParam("K", 2)
	// 0 DLQ threshold (1 of 2) exceeded, 1 transient destination failure, 2 transient source failure, 3 DLQ write failure
	kind := verifConcrete(verifChoice("failure", 4))
	maxRetries := int64(verifConcrete(verifChoice("maxRetries", 2)))
	w, svc := newLifecycleWorld(lCfg{K: K, M: 1, stopAfter: K, dlqSize: 2, dlqTh: 1, recovery: lRecovery(maxRetries)})
	d := w.dests["dest0"]
	switch kind {
	case 0:
		d.nackAll = true
	case 1:
		d.sendFail, d.ackAll = true, true
	case 2:
		w.src.recvFail, d.ackAll = true, true
	case 3:
		d.nackAll = true
		w.dlqNackAll = true
	}
	ctx := context.Background()
	if err := svc.Start(ctx, "pl"); err != nil {
		verifFail("c10-start-failed")
	}
	runErr := svc.WaitPipeline("pl")
	w.mu.Lock()
	statuses := append([]pipeline.Status(nil), w.statuses...)
	w.mu.Unlock()
	count := func(s pipeline.Status) int {
		n := 0
		for _, x := range statuses {
			if x == s {
				n++
			}
		}
		return n
	}
	verifObserve("failure", kind, maxRetries, runErr != nil)
	switch kind {
	case 0, 3:
		// fatal: degraded with the cause recorded, never restarted
		verifAssert(runErr != nil, "c10-fatal-failure-not-reported")
		// C11: a wait issued after the run cleaned itself up still reports its result
		verifAssert(svc.WaitPipeline("pl") != nil, "c11-wait-after-cleanup-lost-result")
		verifAssert(w.lastStatus() == pipeline.StatusDegraded, "c10-fatal-not-degraded")
		verifAssert(count(pipeline.StatusRecovering) == 0, "c10-fatal-restarted")
		verifAssert(count(pipeline.StatusRunning) == 1, "c10-fatal-restarted")
		w.mu.Lock()
		verifAssert(len(w.statusMsg) > 0 && w.statusMsg[len(w.statusMsg)-1] != "", "c10-degraded-without-cause")
		if kind == 3 {
			verifAssert(len(w.src.acks) == 0, "c07-failed-dlq-write-acked")
		}
		w.mu.Unlock()
		verifCover("fatal")
	default:
		if maxRetries == 0 {
			// no retries allowed: the first recovery attempt exceeds the limit -> degraded
			verifAssert(w.lastStatus() == pipeline.StatusDegraded, "c10-exhausted-retries-not-degraded")
			verifAssert(count(pipeline.StatusRunning) == 1, "c10-restart-beyond-max-retries")
			verifCover("exhausted")
		} else {
			// transient: recovering, then restarted after the back-off
			verifAssert(count(pipeline.StatusRecovering) >= 1, "c10-transient-not-recovering")
			verifAssert(count(pipeline.StatusRunning) >= 2, "c10-transient-not-restarted")
			verifCover("recovered")
			// the restarted run resumes after the durable position: no gap
			w.mu.Lock()
			if len(w.src.opens) >= 2 {
				re := w.src.opens[len(w.src.opens)-1]
				for i := 0; i <= re; i++ {
					verifAssert(w.handledLocked(i), "c03-reopened-past-unhandled-record")
				}
			}
			w.mu.Unlock()
			_ = svc.StopAndWait(ctx, "pl")
		}
	}
	w.checkReleased("c11")
}

// VerifLifecycleForceStop: force stop while the destination never answers.
func VerifLifecycleForceStop() {
	K := verifParam("K", 2)
	stopAfter := verifConcrete(verifChoice("stopAfter", K+1))
	w, svc := newLifecycleWorld(lCfg{K: K, M: 1, stopAfter: stopAfter, dlqSize: 0, dlqTh: 0, recovery: lRecovery(3)})
	w.dests["dest0"].block = verifBool("destBlocks")
	if !w.dests["dest0"].block {
		// ... or the destination rejects and the DLQ connector is the unresponsive one
		w.dlqBlocks = verifBool("dlqBlocks")
	}
	graceFirst := verifBool("gracefulFirst")
	ctx := context.Background()
	if err := svc.Start(ctx, "pl"); err != nil {
		verifFail("c12-start-failed")
	}
	if served := w.src.served; served != nil {
		select {
		case <-served:
		case <-time.After(time.Second): // an unresponsive destination stalls the flow: do not wait for more records
		}
	}
	if verifBool("settleBeforeStop") {
		// let the records in flight travel as far as they get (an unresponsive
		// destination leaves them written and unconfirmed) before stopping
		if verifSymbolic() {
			time.Sleep(10 * time.Millisecond)
		} else {
			time.Sleep(100 * time.Millisecond)
		}
	}
	gctx, gcancel := context.WithCancel(ctx)
	gdone := make(chan struct{})
	if graceFirst {
		// a graceful stop request is pending (it may block while a batch is stuck)
		go func() {
			defer close(gdone)
			_ = svc.Stop(gctx, "pl", false)
		}()
		verifYield()
	} else {
		close(gdone)
	}
	err := svc.Stop(ctx, "pl", true)
	gcancel()
	<-gdone
	if err != nil {
		// already gone (the graceful stop finished first): nothing to force
		verifCover("already-stopped")
	}
	runErr := svc.WaitPipeline("pl")
	st := w.lastStatus()
	// the stored status agrees with how the run ended: a run that ended by the
	// force stop is degraded with the cause recorded, whatever was pending before
	if cerrors.Is(runErr, pipeline.ErrForceStop) {
		verifAssert(st == pipeline.StatusDegraded, "c12-force-stopped-run-not-marked-failed")
		verifAssert(st == pipeline.StatusDegraded, "c11-status-disagrees-with-how-the-run-ended")
	}
	if st == pipeline.StatusDegraded {
		w.mu.Lock()
		n := 0
		for _, x := range w.statuses {
			if x == pipeline.StatusRecovering {
				n++
			}
		}
		w.mu.Unlock()
		verifAssert(n == 0, "c12-force-stopped-pipeline-restarted")
		verifCover("forced")
	} else {
		verifAssert(st == pipeline.StatusUserStopped, "c12-status-after-force-stop")
	}
	w.checkReleased("c12")
	// it can be started again and resumes from the durable position
	w.mu.Lock()
	w.dests["dest0"].block = false
	w.dlqBlocks = false
	for _, d := range w.dests {
		d.block = false
	}
	w.src.stopAfter, w.src.served = 0, nil
	acked := len(w.src.acks)
	w.mu.Unlock()
	for len(w.src.openCh) > 0 {
		<-w.src.openCh
	}
	if err := svc.Start(ctx, "pl"); err != nil {
		verifFail("c12-restart-refused")
	}
	<-w.src.openCh
	w.mu.Lock()
	reopen := w.src.opens[len(w.src.opens)-1]
	w.mu.Unlock()
	_ = acked
	w.mu.Lock()
	for i := 0; i <= reopen; i++ {
		verifAssert(w.handledLocked(i), "c12-reopened-past-unhandled-record")
	}
	w.mu.Unlock()
	_ = svc.StopAndWait(ctx, "pl")
	verifCover("end")
}

// VerifLifecycleUserStopVsFailure: the user asks for a graceful stop and a
// transient failure hits the same run: the pipeline must not be restarted by
// recovery and must end user-stopped.
func VerifLifecycleUserStopVsFailure() {
	K := verifParam("K", 2)
	w, svc := newLifecycleWorld(lCfg{K: K, M: 1, stopAfter: 1, dlqSize: 0, dlqTh: 0, recovery: lRecovery(3)})
	d := w.dests["dest0"]
	d.ackAll = true
	failAt := verifConcrete(verifChoice("failAt", 2)) // 0: the destination write fails, 1: the source stream breaks after the records
	if failAt == 0 {
		d.sendFail = true
	} else {
		w.src.recvFail = true
	}
	ctx := context.Background()
	if err := svc.Start(ctx, "pl"); err != nil {
		verifFail("c10-start-failed")
	}
	if served := w.src.served; served != nil {
		<-served
	}
	stopErr := svc.Stop(ctx, "pl", false)
	w.mu.Lock()
	atStop := len(w.statuses)
	w.mu.Unlock()
	_ = svc.WaitPipeline("pl")
	// let any recovery timer run its course (virtual time under the engine)
	if verifSymbolic() {
		time.Sleep(time.Minute)
	} else {
		time.Sleep(800 * time.Millisecond)
	}
	w.mu.Lock()
	statuses := append([]pipeline.Status(nil), w.statuses...)
	w.mu.Unlock()
	// a (re)start that happened before the stop request was accepted is fine;
	// none may follow it
	restartedAfterStop := false
	for _, s := range statuses[atStop:] {
		if s == pipeline.StatusRunning {
			restartedAfterStop = true
		}
	}
	if stopErr == nil {
		verifAssert(!restartedAfterStop, "c10-user-stopped-pipeline-restarted")
		last := w.lastStatus()
		verifAssert(last == pipeline.StatusUserStopped || last == pipeline.StatusDegraded, "c10-status-after-user-stop")
		verifCover("stopped")
	} else {
		verifCover("stop-refused")
	}
	if st := w.lastStatus(); st == pipeline.StatusRunning || st == pipeline.StatusRecovering {
		_ = svc.StopAndWait(ctx, "pl")
	}
}

// checkDrained is the C06 oracle after a stop-and-wait that returned nil: every
// record that reached a destination or the DLQ has its final outcome and was
// acknowledged to the source; a record read but not yet handed on when the stop
// arrived may have been dropped (it is read again after a restart).
func (w *lWorld) checkDrained() {
	w.mu.Lock()
	defer w.mu.Unlock()
	ackedSet := map[int]bool{}
	for _, i := range w.src.acks {
		ackedSet[i] = true
	}
	for _, d := range w.dests {
		for _, i := range d.written {
			verifAssert(ackedSet[i], "c06-read-record-left-without-outcome")
			verifAssert(w.handledLocked(i), "c06-read-record-left-without-outcome")
		}
	}
}
