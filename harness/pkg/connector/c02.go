//go:build verif

package connector

// C02/C03/C06 (connector layer): a real Source with a real Persister over a
// fake transactional DB, a fake plugin and a fake run stream. The fakes log
// every externally visible event; the oracles read that log.

import (
	"context"
	"strconv"
	"strings"
	"sync"
	"time"

	"github.com/conduitio/conduit-commons/database"
	"github.com/conduitio/conduit-commons/opencdc"
	"github.com/conduitio/conduit-connector-protocol/pconnector"
	"github.com/conduitio/conduit/pkg/foundation/cerrors"
	"github.com/conduitio/conduit/pkg/foundation/log"
	connectorPlugin "github.com/conduitio/conduit/pkg/plugin/connector"
)

func init() {
	verifRegister("VerifC02Shared", VerifC02Shared)
	verifRegister("VerifC02World", VerifC02World)
	verifRegister("VerifC02Step", VerifC02Step)
	verifRegister("VerifC03Restore", VerifC03Restore)
}

func cPos(i int) opencdc.Position { return opencdc.Position("p" + strconv.Itoa(i)) }

func cIdx(p opencdc.Position) int {
	s := string(p)
	if len(s) < 2 || s[0] != 'p' {
		return -1
	}
	n, err := strconv.Atoi(s[1:])
	if err != nil {
		return -1
	}
	return n
}

// ---- event log ----

type cEvent struct {
	kind string // "commit" | "send" | "handled" | "open" | "teardown" | "streamclosed"
	pos  int    // commit: position index stored (-1 none / empty); send: last index; handled: index
	conn string // connector the event belongs to
}

type cWorld struct {
	mu       sync.Mutex
	events   []cEvent
	faults   bool
	sendFail bool
	oneFault bool // at most one store operation fails
	fired    bool
	// committed store content
	store map[string][]byte
}

// fault draws whether the current store operation fails.
func (w *cWorld) fault(name string) bool {
	if !w.faults || (w.oneFault && w.fired) {
		return false
	}
	if verifBool(name) {
		w.fired = true
		return true
	}
	return false
}

func (w *cWorld) log(kind string, pos int) {
	w.mu.Lock()
	w.events = append(w.events, cEvent{kind, pos, "src"})
	w.mu.Unlock()
}

// ---- fake DB ----

type cDB struct{ w *cWorld }

type cTx struct {
	w    *cWorld
	sets map[string][]byte
	done bool
}

type cTxKey struct{}

func (d *cDB) NewTransaction(ctx context.Context, update bool) (database.Transaction, context.Context, error) {
	if d.w.fault("db.newtx.fail") {
		return nil, ctx, cerrors.New("verif: NewTransaction failed")
	}
	tx := &cTx{w: d.w, sets: map[string][]byte{}}
	return tx, context.WithValue(ctx, cTxKey{}, tx), nil
}
func (d *cDB) Close() error               { return nil }
func (d *cDB) Ping(context.Context) error { return nil }
func (d *cDB) Set(ctx context.Context, key string, value []byte) error {
	if d.w.fault("db.set.fail") {
		return cerrors.New("verif: Set failed")
	}
	if tx, ok := ctx.Value(cTxKey{}).(*cTx); ok && tx != nil {
		tx.sets[key] = value
		return nil
	}
	d.w.mu.Lock()
	d.w.store[key] = value
	d.w.mu.Unlock()
	return nil
}
func (d *cDB) Get(ctx context.Context, key string) ([]byte, error) {
	d.w.mu.Lock()
	defer d.w.mu.Unlock()
	v, ok := d.w.store[key]
	if !ok {
		return nil, database.ErrKeyNotExist
	}
	return v, nil
}
func (d *cDB) GetKeys(ctx context.Context, prefix string) ([]string, error) { return nil, nil }

func (t *cTx) Commit() error {
	if t.done {
		return cerrors.New("verif: commit of finished transaction")
	}
	if t.w.fault("db.commit.fail") {
		t.done = true
		return cerrors.New("verif: Commit failed")
	}
	t.done = true
	t.w.mu.Lock()
	if len(t.sets) == 0 {
		t.w.events = append(t.w.events, cEvent{"commit", -2, "src"})
	}
	for _, conn := range []string{"src", "srcB"} {
		// one commit event per connector document written by this transaction
		for k, v := range t.sets {
			if k[strings.LastIndex(k, ":")+1:] != conn {
				continue
			}
			t.w.store[k] = v
			t.w.events = append(t.w.events, cEvent{"commit", cStoredIdx(v), conn})
		}
	}
	t.w.mu.Unlock()
	return nil
}
func (t *cTx) Discard() { t.done = true }

// cStoredIdx extracts the position index from a stored connector document.
func cStoredIdx(raw []byte) int {
	if verifSymbolic() {
		// under the engine the codec is replaced: raw IS the position ("" when unset)
		if len(raw) == 0 {
			return -1
		}
		return cIdx(opencdc.Position(raw))
	}
	s := &Store{}
	inst, err := s.decode(raw)
	if err != nil {
		return -3
	}
	st, ok := inst.State.(SourceState)
	if !ok || len(st.Position) == 0 {
		return -1
	}
	return cIdx(st.Position)
}

// verifStubEncode replaces (*Store).encode under the engine (goccy/go-json is
// reflection based): the stored document is just the source position.
func verifStubEncode(s *Store, i *Instance) ([]byte, error) {
	if st, ok := i.State.(SourceState); ok {
		return []byte(st.Position), nil
	}
	return nil, nil
}

// ---- fake plugin + stream ----

type cPlugin struct {
	w        *cWorld
	stream   *cStream
	openPos  []opencdc.Position
	teardown int
}

func (p *cPlugin) Configure(context.Context, pconnector.SourceConfigureRequest) (pconnector.SourceConfigureResponse, error) {
	return pconnector.SourceConfigureResponse{}, nil
}
func (p *cPlugin) Open(_ context.Context, r pconnector.SourceOpenRequest) (pconnector.SourceOpenResponse, error) {
	p.openPos = append(p.openPos, r.Position)
	p.w.log("open", cIdx(r.Position))
	return pconnector.SourceOpenResponse{}, nil
}
func (p *cPlugin) Run(ctx context.Context, s pconnector.SourceRunStream) error {
	p.stream.ctx = ctx
	return nil
}
func (p *cPlugin) Stop(context.Context, pconnector.SourceStopRequest) (pconnector.SourceStopResponse, error) {
	return pconnector.SourceStopResponse{}, nil
}
func (p *cPlugin) Teardown(context.Context, pconnector.SourceTeardownRequest) (pconnector.SourceTeardownResponse, error) {
	p.teardown++
	p.w.log("teardown", 0)
	return pconnector.SourceTeardownResponse{}, nil
}
func (p *cPlugin) LifecycleOnCreated(context.Context, pconnector.SourceLifecycleOnCreatedRequest) (pconnector.SourceLifecycleOnCreatedResponse, error) {
	return pconnector.SourceLifecycleOnCreatedResponse{}, nil
}
func (p *cPlugin) LifecycleOnUpdated(context.Context, pconnector.SourceLifecycleOnUpdatedRequest) (pconnector.SourceLifecycleOnUpdatedResponse, error) {
	return pconnector.SourceLifecycleOnUpdatedResponse{}, nil
}
func (p *cPlugin) LifecycleOnDeleted(context.Context, pconnector.SourceLifecycleOnDeletedRequest) (pconnector.SourceLifecycleOnDeletedResponse, error) {
	return pconnector.SourceLifecycleOnDeletedResponse{}, nil
}
func (p *cPlugin) NewStream() pconnector.SourceRunStream { return p.stream }

type cStream struct {
	w    *cWorld
	ctx  context.Context
	conn string
}

func (s *cStream) id() string {
	if s.conn == "" {
		return "src"
	}
	return s.conn
}

func (s *cStream) Client() pconnector.SourceRunStreamClient { return s }
func (s *cStream) Server() pconnector.SourceRunStreamServer { return nil }
func (s *cStream) Recv() (pconnector.SourceRunResponse, error) {
	<-s.ctx.Done()
	return pconnector.SourceRunResponse{}, s.ctx.Err()
}

// Send is where C02 is asserted: an ack reaches the plugin.
func (s *cStream) Send(r pconnector.SourceRunRequest) error {
	w := s.w
	if s.ctx.Err() != nil {
		w.log("send-after-close", -1)
		return cerrors.New("verif: stream closed")
	}
	if w.sendFail && verifBool("stream.send.fail") {
		return cerrors.New("verif: transient send failure")
	}
	w.mu.Lock()
	defer w.mu.Unlock()
	lastSent := -1
	maxCommitted := -1
	for _, e := range w.events {
		if e.conn != s.id() {
			continue
		}
		switch e.kind {
		case "send":
			lastSent = e.pos
		case "commit":
			if e.pos > maxCommitted {
				maxCommitted = e.pos
			}
		}
	}
	for _, p := range r.AckPositions {
		i := cIdx(p)
		// C04 (connector FIFO): acks reach the plugin in read order, no gap, no repeat
		verifAssert(i == lastSent+1, "c04-plugin-ack-order")
		// C02: a successful commit containing this position or a later one happened before
		verifAssert(i <= maxCommitted, "c02-ack-before-durable")
		lastSent = i
		w.events = append(w.events, cEvent{"send", i, s.id()})
	}
	return nil
}

type cDispenser struct{ p *cPlugin }

func (d cDispenser) DispenseSpecifier() (connectorPlugin.SpecifierPlugin, error) { return nil, nil }
func (d cDispenser) DispenseSource() (connectorPlugin.SourcePlugin, error)       { return d.p, nil }
func (d cDispenser) DispenseDestination() (connectorPlugin.DestinationPlugin, error) {
	return nil, nil
}

// ---- fake clock: the debounce timer fires whenever the scheduler lets it ----

type cClock struct{}

type cTimer struct {
	mu      sync.Mutex
	stopped bool
	fired   bool
}

func (t *cTimer) Stop() bool {
	t.mu.Lock()
	defer t.mu.Unlock()
	was := !t.stopped && !t.fired
	t.stopped = true
	return was
}

func (cClock) Now() time.Time { return time.Unix(1_700_000_000, 0) }
func (cClock) AfterFunc(d time.Duration, f func()) stoppableTimer {
	t := &cTimer{}
	go func() {
		verifYield()
		t.mu.Lock()
		if t.stopped {
			t.mu.Unlock()
			return
		}
		t.fired = true
		t.mu.Unlock()
		f()
	}()
	return t
}

// ---- world construction ----

func newSourceWorld(bundle int, faults, sendFail bool) (*cWorld, *Source, *cPlugin, *Persister) {
	w := &cWorld{store: map[string][]byte{}, faults: faults, sendFail: sendFail}
	db := &cDB{w: w}
	p := &Persister{
		logger:               log.Nop(),
		db:                   db,
		store:                &Store{db: db, logger: log.Nop()},
		delayThreshold:       time.Second,
		bundleCountThreshold: bundle,
		clock:                cClock{},
	}
	pl := &cPlugin{w: w, stream: &cStream{w: w}}
	inst := &Instance{ID: "src", Type: TypeSource, Plugin: "fake", logger: log.Nop(), persister: p}
	s := &Source{
		Instance:              inst,
		dispenser:             cDispenser{pl},
		errs:                  make(chan error, 64),
		teardownFlushTimeout:  cTeardownTimeout(),
		deferredAckMaxRetries: 2,
		deferredAckBackoffCap: time.Millisecond,
	}
	return w, s, pl, p
}

// addSource attaches a second source (own plugin and stream) to the same
// persister and store.
func addSource(w *cWorld, p *Persister, id string) (*Source, *cPlugin) {
	pl := &cPlugin{w: w, stream: &cStream{w: w, conn: id}}
	inst := &Instance{ID: id, Type: TypeSource, Plugin: "fake", logger: log.Nop(), persister: p}
	s := &Source{
		Instance:              inst,
		dispenser:             cDispenser{pl},
		errs:                  make(chan error, 64),
		teardownFlushTimeout:  cTeardownTimeout(),
		deferredAckMaxRetries: 2,
		deferredAckBackoffCap: time.Millisecond,
	}
	return s, pl
}

// VerifC02Shared: two sources share one persister (as all connectors of a
// server do); their acks land in the same flush, any store operation may fail.
// No plugin is told a position is durable unless a successful commit contained
// that connector's position.
func VerifC02Shared() {
	K := verifParam("K", 2)
	bundle := 1 + verifConcrete(verifChoice("bundle", 3))
	w, sA, _, p := newSourceWorld(bundle, true, false)
	w.oneFault = true
	sB, _ := addSource(w, p, "srcB")
	ctx := context.Background()
	if sA.Open(ctx) != nil || sB.Open(ctx) != nil {
		verifFail("c02-open-failed")
	}
	next := map[*Source]int{}
	for k := 0; k < K; k++ {
		s := sA
		if verifBool("useB") {
			s = sB
		}
		if err := s.Ack(ctx, []opencdc.Position{cPos(next[s])}); err != nil {
			break
		}
		next[s]++
		switch verifConcrete(verifChoice("between", 3)) {
		case 1:
			p.Flush(ctx)
		case 2:
			verifYield()
		}
	}
	p.Flush(ctx)
	_ = sA.Teardown(ctx)
	_ = sB.Teardown(ctx)
	p.Wait()
	verifSchedOff()
	w.mu.Lock()
	defer w.mu.Unlock()
	for _, conn := range []string{"src", "srcB"} {
		lastCommit, lastSend := -1, -1
		for _, e := range w.events {
			if e.conn != conn {
				continue
			}
			switch e.kind {
			case "commit":
				if e.pos > lastCommit {
					lastCommit = e.pos
				}
			case "send":
				lastSend = e.pos
			}
		}
		verifAssert(lastSend <= lastCommit, "c02-sent-beyond-durable")
	}
	verifCover("end")
}

// VerifC02World: K engine acks in read order with flushes, timers, store
// failures and teardown landing anywhere.
func VerifC02World() {
	K := verifParam("K", 2)
	bundle := 1 + verifConcrete(verifChoice("bundle", 3))
	w, s, pl, p := newSourceWorld(bundle, verifParam("faults", 1) == 1, verifParam("sendfail", 0) == 1)
	ctx := context.Background()
	if err := s.Open(ctx); err != nil {
		verifFail("c02-open-failed")
	}
	handled := 0
	for k := 0; k < K; k++ {
		// the engine acks record k only after it was handled downstream
		w.log("handled", k)
		handled++
		if err := s.Ack(ctx, []opencdc.Position{cPos(k)}); err != nil {
			break
		}
		switch verifConcrete(verifChoice("between", 3)) {
		case 1:
			p.Flush(ctx)
		case 2:
			verifYield()
		}
	}
	tdErr := s.Teardown(ctx)
	p.Wait()
	verifSchedOff() // the oracles below replay restarts; their interleavings are not the subject
	_ = tdErr
	_ = handled

	// end-state oracles (C02 / C06 connector layer)
	w.mu.Lock()
	defer w.mu.Unlock()
	lastCommit, lastSend := -1, -1
	sawTeardown := false
	anyFault := false
	for _, e := range w.events {
		switch e.kind {
		case "commit":
			// C02: the stored position only moves forward and never becomes empty once set
			verifAssert(e.pos >= lastCommit, "c02-stored-position-went-backwards")
			lastCommit = e.pos
		case "send":
			verifAssert(!sawTeardown, "c06-ack-after-plugin-teardown")
			lastSend = e.pos
		case "teardown":
			sawTeardown = true
		case "send-after-close":
			anyFault = true
		}
	}
	verifAssert(pl.teardown == 1, "c06-plugin-teardown-count")
	if !w.faults && !w.sendFail {
		// healthy store and stream: after teardown every ack was delivered and
		// the stored position is exactly the last acknowledged record
		verifAssert(lastSend == K-1, "c06-acks-not-drained-before-teardown")
		verifAssert(lastCommit == K-1, "c06-stored-position-not-last-ack")
		verifAssert(!anyFault, "c06-send-after-stream-close")
		verifCover("healthy")
	} else {
		verifCover("faulty")
	}
	verifAssert(lastSend <= lastCommit, "c02-sent-beyond-durable")
	verifObserve("end", lastSend <= lastCommit)

	// C03 (connector layer): a crash after ANY prefix of the externally visible
	// event log. The restart state is the last committed position P within the
	// prefix: every record at or before P was handled within the prefix, and the
	// plugin was never told to discard beyond P.
	evs := append([]cEvent(nil), w.events...)
	for k := 0; k <= len(evs); k++ {
		P, sent, handledUpTo := -1, -1, -1
		for _, e := range evs[:k] {
			switch e.kind {
			case "commit":
				if e.pos >= 0 {
					P = e.pos
				}
			case "send":
				sent = e.pos
			case "handled":
				handledUpTo = e.pos
			}
		}
		verifAssert(P <= handledUpTo, "c03-stored-position-past-unhandled-record")
		verifAssert(sent <= P, "c03-upstream-told-to-discard-beyond-durable")
	}
	w.mu.Unlock()
	// restart on the committed store after a crash at any prefix: the plugin is
	// reopened with exactly the position stored at that instant
	seenP := map[int]bool{}
	for k := 0; k <= len(evs); k++ {
		P := -1
		for _, e := range evs[:k] {
			if e.kind == "commit" && e.pos >= 0 {
				P = e.pos
			}
		}
		if seenP[P] {
			continue
		}
		seenP[P] = true
		_, s2, pl2, _ := newSourceWorld(1, false, false)
		if P >= 0 {
			s2.Instance.State = SourceState{Position: cPos(P)}
		}
		if err := s2.Open(context.Background()); err != nil {
			verifFail("c03-reopen-failed")
		}
		verifAssert(len(pl2.openPos) == 1 && cIdx(pl2.openPos[0]) == P, "c03-reopened-with-wrong-position")
		_ = s2.Teardown(context.Background())
	}
	w.mu.Lock()
	verifCover("crash-checked")
}

// VerifC02Step: inductive step of onPersistFlushed from an arbitrary valid
// ack-bookkeeping state (64-bit sequence numbers symbolic).
func VerifC02Step() {
	n := verifConcrete(verifChoice("pending", verifParam("maxPending", 3)+1))
	s := &Source{errs: make(chan error, 4), deferredAckSignal: make(chan struct{}, 1)}
	durable := verifUint64("durable")
	next := verifUint64("next")
	verifAssume(durable <= next)
	prev := durable
	for k := 0; k < n; k++ {
		seq := verifUint64("seq")
		verifAssume(seq > prev)
		verifAssume(seq <= next)
		prev = seq
		s.pendingAcks = append(s.pendingAcks, pendingAck{seq: seq, positions: []opencdc.Position{cPos(k)}})
	}
	s.durableAckSeq = durable
	s.nextAckSeq = next
	s.deferredAckClosed = verifBool("closed")
	flushed := verifUint64("flushed")
	verifAssume(flushed <= next)
	fail := verifBool("fail")
	var err error
	if fail {
		err = cerrors.New("verif: flush failed")
	}
	before := make([]pendingAck, len(s.pendingAcks))
	copy(before, s.pendingAcks)

	s.onPersistFlushed(flushed, err)

	if fail {
		verifAssert(len(s.deferredAckQueue) == 0, "c02-released-on-failed-flush")
		verifAssert(len(s.pendingAcks) == n, "c02-pending-dropped-on-failed-flush")
		verifAssert(s.durableAckSeq == durable, "c02-durable-advanced-on-failed-flush")
		verifCover("failed")
		return
	}
	want := durable
	if flushed > durable {
		want = flushed
	}
	verifAssert(s.durableAckSeq == want, "c02-durable-seq-not-max")
	rel := 0
	for k := 0; k < n; k++ {
		if before[k].seq <= want {
			verifAssert(k == rel, "c04-release-not-fifo")
			rel++
		}
	}
	verifAssert(len(s.pendingAcks) == n-rel, "c02-pending-after-release")
	if !s.deferredAckClosed {
		verifAssert(len(s.deferredAckQueue) == rel, "c02-released-count")
		for k := 0; k < rel && k < len(s.deferredAckQueue); k++ {
			verifAssert(cIdx(s.deferredAckQueue[k][0]) == k, "c04-release-order")
		}
	} else {
		verifAssert(len(s.deferredAckQueue) == 0, "c02-released-after-close")
	}
	for k := 0; k < len(s.pendingAcks); k++ {
		verifAssert(s.pendingAcks[k].seq > s.durableAckSeq, "c02-pending-invariant")
	}
	verifCover("ok")
}

// cTeardownTimeout: virtual time under the engine, short real time natively.
func cTeardownTimeout() time.Duration {
	if verifSymbolic() {
		return time.Hour
	}
	return 200 * time.Millisecond
}

// VerifC03Restore: the position a restarted server hands to the plugin is the
// one in the stored document (service Init path: Store.Get -> Instance.State ->
// Source.open). Under the engine the codec is the position stub.
func VerifC03Restore() {
	w, s, _, p := newSourceWorld(1, false, false)
	ctx := context.Background()
	if err := s.Open(ctx); err != nil {
		verifFail("c03-open-failed")
	}
	K := verifParam("K", 2)
	for k := 0; k < K; k++ {
		if err := s.Ack(ctx, []opencdc.Position{cPos(k)}); err != nil {
			verifFail("c03-ack-failed")
		}
	}
	_ = s.Teardown(ctx)
	p.Wait()
	// what a restart reads back
	raw, err := (&cDB{w: w}).Get(ctx, "connector:instance:src")
	verifAssert(err == nil, "c03-nothing-stored")
	verifAssert(cStoredIdx(raw) == K-1, "c03-stored-document-position")
	verifCover("end")
}
