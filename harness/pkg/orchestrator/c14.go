//go:build verif

package orchestrator

// C14: the management API is all-or-nothing. The real orchestrator drives the
// real pipeline/connector/processor services over a fake transactional DB; one
// store operation (chosen symbolically) fails. After every call the in-memory
// view, the committed store and the cross references are compared.

import (
	"context"
	"sort"
	"strconv"
	"strings"
	"sync"
	"time"

	"github.com/conduitio/conduit-commons/database"
	"github.com/conduitio/conduit-commons/opencdc"
	"github.com/conduitio/conduit-connector-protocol/pconnector"
	sdk "github.com/conduitio/conduit-processor-sdk"
	"github.com/conduitio/conduit/pkg/connector"
	"github.com/conduitio/conduit/pkg/foundation/cerrors"
	"github.com/conduitio/conduit/pkg/foundation/log"
	"github.com/conduitio/conduit/pkg/pipeline"
	connectorPlugin "github.com/conduitio/conduit/pkg/plugin/connector"
	"github.com/conduitio/conduit/pkg/plugin/processor/egress"
	"github.com/conduitio/conduit/pkg/processor"
)

func init() { verifRegister("VerifC14Ops", VerifC14Ops) }

// ---- fake transactional DB with one injected fault ----

type oDB struct {
	mu        sync.Mutex
	committed map[string][]byte
	ops       int // store operations seen so far (Set / NewTransaction / Commit)
	failAt    int // index of the operation that fails (-1: none)
}

type oTx struct {
	db   *oDB
	sets map[string][]byte
	done bool
}
type oTxKey struct{}

func (d *oDB) fault() bool {
	d.ops++
	return d.ops-1 == d.failAt
}

func (d *oDB) NewTransaction(ctx context.Context, update bool) (database.Transaction, context.Context, error) {
	d.mu.Lock()
	defer d.mu.Unlock()
	if d.fault() {
		return nil, ctx, cerrors.New("verif: NewTransaction failed")
	}
	tx := &oTx{db: d, sets: map[string][]byte{}}
	return tx, context.WithValue(ctx, oTxKey{}, tx), nil
}
func (d *oDB) Close() error               { return nil }
func (d *oDB) Ping(context.Context) error { return nil }
func (d *oDB) Set(ctx context.Context, key string, value []byte) error {
	d.mu.Lock()
	defer d.mu.Unlock()
	if d.fault() {
		return cerrors.New("verif: Set failed")
	}
	// as the in-memory reference DB: a write through a finished transaction is
	// absorbed by it and never becomes visible
	if tx, ok := ctx.Value(oTxKey{}).(*oTx); ok && tx != nil {
		tx.sets[key] = value
		return nil
	}
	if value == nil {
		delete(d.committed, key)
	} else {
		d.committed[key] = value
	}
	return nil
}
func (d *oDB) Get(ctx context.Context, key string) ([]byte, error) {
	d.mu.Lock()
	defer d.mu.Unlock()
	if tx, ok := ctx.Value(oTxKey{}).(*oTx); ok && tx != nil {
		if v, ok := tx.sets[key]; ok {
			if v == nil {
				return nil, database.ErrKeyNotExist
			}
			return v, nil
		}
	}
	v, ok := d.committed[key]
	if !ok {
		return nil, database.ErrKeyNotExist
	}
	return v, nil
}
func (d *oDB) GetKeys(ctx context.Context, prefix string) ([]string, error) {
	d.mu.Lock()
	defer d.mu.Unlock()
	var keys []string
	for k := range d.committed {
		if strings.HasPrefix(k, prefix) {
			keys = append(keys, k)
		}
	}
	sort.Strings(keys)
	return keys, nil
}
func (t *oTx) Commit() error {
	t.db.mu.Lock()
	defer t.db.mu.Unlock()
	if t.db.fault() {
		t.done = true
		return cerrors.New("verif: Commit failed")
	}
	t.done = true
	for k, v := range t.sets {
		if v == nil {
			delete(t.db.committed, k)
		} else {
			t.db.committed[k] = v
		}
	}
	return nil
}
func (t *oTx) Discard() { t.done = true }

// ---- codec stubs (engine only): a stored document is a handle to a snapshot ----

var oSnaps = map[string]any{}

func oSnap(v any) []byte {
	k := "snap#" + strconv.Itoa(len(oSnaps))
	oSnaps[k] = v
	return []byte(k)
}

func verifStubEncPipeline(s *pipeline.Store, i *pipeline.Instance) ([]byte, error) {
	c := &pipeline.Instance{ID: i.ID, Config: i.Config, Error: i.Error, ProvisionedBy: i.ProvisionedBy, DLQ: i.DLQ,
		ConnectorIDs: append([]string(nil), i.ConnectorIDs...), ProcessorIDs: append([]string(nil), i.ProcessorIDs...)}
	c.SetStatus(i.GetStatus())
	return oSnap(c), nil
}
func verifStubDecPipeline(s *pipeline.Store, raw []byte) (*pipeline.Instance, error) {
	i := oSnaps[string(raw)].(*pipeline.Instance)
	c := &pipeline.Instance{ID: i.ID, Config: i.Config, Error: i.Error, ProvisionedBy: i.ProvisionedBy, DLQ: i.DLQ,
		ConnectorIDs: append([]string(nil), i.ConnectorIDs...), ProcessorIDs: append([]string(nil), i.ProcessorIDs...)}
	c.SetStatus(i.GetStatus())
	return c, nil
}
func verifStubEncConnector(s *connector.Store, i *connector.Instance) ([]byte, error) {
	c := &connector.Instance{ID: i.ID, Type: i.Type, Config: i.Config, PipelineID: i.PipelineID, Plugin: i.Plugin,
		ProcessorIDs: append([]string(nil), i.ProcessorIDs...), State: i.State, ProvisionedBy: i.ProvisionedBy, LastActiveConfig: i.LastActiveConfig}
	return oSnap(c), nil
}
func verifStubDecConnector(s *connector.Store, raw []byte) (*connector.Instance, error) {
	i := oSnaps[string(raw)].(*connector.Instance)
	return &connector.Instance{ID: i.ID, Type: i.Type, Config: i.Config, PipelineID: i.PipelineID, Plugin: i.Plugin,
		ProcessorIDs: append([]string(nil), i.ProcessorIDs...), State: i.State, ProvisionedBy: i.ProvisionedBy, LastActiveConfig: i.LastActiveConfig}, nil
}
func verifStubEncProcessor(s *processor.Store, i *processor.Instance) ([]byte, error) {
	return oSnap(&processor.Instance{ID: i.ID, ProvisionedBy: i.ProvisionedBy, Plugin: i.Plugin, Condition: i.Condition, Parent: i.Parent, Config: i.Config}), nil
}
func verifStubDecProcessor(s *processor.Store, raw []byte) (*processor.Instance, error) {
	i := oSnaps[string(raw)].(*processor.Instance)
	return &processor.Instance{ID: i.ID, ProvisionedBy: i.ProvisionedBy, Plugin: i.Plugin, Condition: i.Condition, Parent: i.Parent, Config: i.Config}, nil
}

// ---- fake plugin / lifecycle services ----

type oConnPlugins struct{}

func (oConnPlugins) List(context.Context) (map[string]pconnector.Specification, error) {
	return nil, nil
}
func (oConnPlugins) NewDispenser(log.CtxLogger, string, string) (connectorPlugin.Dispenser, error) {
	return nil, cerrors.New("verif: no dispenser")
}
func (oConnPlugins) ValidateSourceConfig(context.Context, string, map[string]string) error {
	return nil
}
func (oConnPlugins) ValidateDestinationConfig(context.Context, string, map[string]string) error {
	return nil
}

type oProcPlugins struct{}

func (oProcPlugins) List(context.Context) (map[string]sdk.Specification, error) { return nil, nil }
func (oProcPlugins) RegisterStandalonePlugin(context.Context, string) (string, error) {
	return "", nil
}

type oLifecycle struct{}

func (oLifecycle) Start(context.Context, string) error      { return nil }
func (oLifecycle) Stop(context.Context, string, bool) error { return nil }

type oProcRegistry struct{}

type oNopProcessor struct{ sdk.UnimplementedProcessor }

func (oNopProcessor) Teardown(context.Context) error { return nil }
func (oNopProcessor) Process(context.Context, []opencdc.Record) []sdk.ProcessedRecord {
	return nil
}

func (oProcRegistry) NewProcessor(context.Context, string, string, egress.Policy) (sdk.Processor, error) {
	return oNopProcessor{}, nil
}

// ---- world ----

type oWorld struct {
	db    *oDB
	pipes *pipeline.Service
	conns *connector.Service
	procs *processor.Service
	orc   *Orchestrator
}

func newOWorld() *oWorld {
	db := &oDB{committed: map[string][]byte{}, failAt: -1}
	logger := log.Nop()
	w := &oWorld{db: db}
	w.pipes = pipeline.NewService(logger, db)
	persister := connector.NewPersister(logger, db, time.Hour, 1<<30)
	w.conns = connector.NewService(logger, db, persister)
	w.procs = processor.NewService(logger, db, oProcRegistry{})
	w.orc = NewOrchestrator(db, logger, w.pipes, w.conns, w.procs, oConnPlugins{}, oProcPlugins{}, oLifecycle{})
	return w
}

// view is a canonical rendering of the exported state (what List/Get return).
func (w *oWorld) view(ctx context.Context, p *pipeline.Service, c *connector.Service, pr *processor.Service) []string {
	var out []string
	for id, pl := range p.List(ctx) {
		out = append(out, "pipeline "+id+" name="+pl.Config.Name+" desc="+pl.Config.Description+" prov="+strconv.Itoa(int(pl.ProvisionedBy))+
			" status="+oStatus(pl.GetStatus())+" conns="+strings.Join(pl.ConnectorIDs, ",")+" procs="+strings.Join(pl.ProcessorIDs, ",")+
			" dlq="+pl.DLQ.Plugin+"/"+strconv.Itoa(pl.DLQ.WindowSize)+"/"+strconv.Itoa(pl.DLQ.WindowNackThreshold))
	}
	for id, cn := range c.List(ctx) {
		out = append(out, "connector "+id+" type="+strconv.Itoa(int(cn.Type))+" name="+cn.Config.Name+" plugin="+cn.Plugin+" pipeline="+cn.PipelineID+
			" setting="+cn.Config.Settings["k"]+" procs="+strings.Join(cn.ProcessorIDs, ",")+" state="+oState(cn.State))
	}
	for id, pc := range pr.List(ctx) {
		out = append(out, "processor "+id+" plugin="+pc.Plugin+" parent="+strconv.Itoa(int(pc.Parent.Type))+":"+pc.Parent.ID+" setting="+pc.Config.Settings["k"]+
			" workers="+strconv.Itoa(pc.Config.Workers)+" cond="+pc.Condition)
	}
	sort.Strings(out)
	return out
}

// oStatus renders a status; a restarted server loads a running pipeline as
// system-stopped (to be resumed), so both render the same.
func oStatus(s pipeline.Status) string {
	if s == pipeline.StatusSystemStopped {
		s = pipeline.StatusRunning
	}
	return strconv.Itoa(int(s))
}

func oState(s any) string {
	if st, ok := s.(connector.SourceState); ok {
		return string(st.Position)
	}
	return ""
}

func (w *oWorld) memView() []string {
	return w.view(context.Background(), w.pipes, w.conns, w.procs)
}

// reloadView initialises fresh services from the committed store (a restart).
func (w *oWorld) reloadView() ([]string, bool) {
	ctx := context.Background()
	ro := &oDB{committed: w.db.committed, failAt: -1}
	logger := log.Nop()
	p := pipeline.NewService(logger, ro)
	c := connector.NewService(logger, ro, connector.NewPersister(logger, ro, time.Hour, 1<<30))
	pr := processor.NewService(logger, ro, oProcRegistry{})
	if p.Init(ctx) != nil || c.Init(ctx) != nil || pr.Init(ctx) != nil {
		return nil, false
	}
	return w.view(ctx, p, c, pr), true
}

func (w *oWorld) storeKeys() []string {
	var ks []string
	for k, v := range w.db.committed {
		ks = append(ks, k+"="+string(v))
	}
	sort.Strings(ks)
	return ks
}

func sameStrings(a, b []string) bool {
	if len(a) != len(b) {
		return false
	}
	for i := range a {
		if a[i] != b[i] {
			return false
		}
	}
	return true
}

// checkRefs: pipelines reference exactly their existing connectors/processors and vice versa.
func (w *oWorld) checkRefs() {
	ctx := context.Background()
	pls := w.pipes.List(ctx)
	cns := w.conns.List(ctx)
	prs := w.procs.List(ctx)
	for _, pl := range pls {
		for _, id := range pl.ConnectorIDs {
			cn, ok := cns[id]
			verifAssert(ok && cn.PipelineID == pl.ID, "c14-pipeline-references-missing-connector")
		}
		for _, id := range pl.ProcessorIDs {
			pc, ok := prs[id]
			verifAssert(ok && pc.Parent.Type == processor.ParentTypePipeline && pc.Parent.ID == pl.ID, "c14-pipeline-references-missing-processor")
		}
	}
	for id, cn := range cns {
		pl, ok := pls[cn.PipelineID]
		found := false
		if ok {
			for _, x := range pl.ConnectorIDs {
				if x == id {
					found = true
				}
			}
		}
		verifAssert(found, "c14-connector-not-referenced-by-its-pipeline")
		for _, pid := range cn.ProcessorIDs {
			pc, ok := prs[pid]
			verifAssert(ok && pc.Parent.Type == processor.ParentTypeConnector && pc.Parent.ID == id, "c14-connector-references-missing-processor")
		}
	}
	for id, pc := range prs {
		found := false
		switch pc.Parent.Type {
		case processor.ParentTypePipeline:
			if pl, ok := pls[pc.Parent.ID]; ok {
				for _, x := range pl.ProcessorIDs {
					if x == id {
						found = true
					}
				}
			}
		case processor.ParentTypeConnector:
			if cn, ok := cns[pc.Parent.ID]; ok {
				for _, x := range cn.ProcessorIDs {
					if x == id {
						found = true
					}
				}
			}
		}
		verifAssert(found, "c14-processor-not-referenced-by-its-parent")
	}
}

// VerifC14Ops: set up a pipeline with a connector and two processors, then run
// one API operation while one store operation fails.
func VerifC14Ops() {
	ctx := context.Background()
	w := newOWorld()
	pl, err := w.orc.Pipelines.Create(ctx, pipeline.Config{Name: "p1", Description: "d"})
	if err != nil {
		verifFail("c14-setup-failed")
	}
	other, err := w.orc.Pipelines.Create(ctx, pipeline.Config{Name: "p2"})
	if err != nil {
		verifFail("c14-setup-failed")
	}
	cn, err := w.orc.Connectors.Create(ctx, connector.TypeSource, "builtin:x", pl.ID, connector.Config{Name: "c1", Settings: map[string]string{"k": "v"}})
	if err != nil {
		verifFail("c14-setup-failed")
	}
	pp, err := w.orc.Processors.Create(ctx, "proc", processor.Parent{ID: pl.ID, Type: processor.ParentTypePipeline}, processor.Config{Settings: map[string]string{"k": "v"}}, "")
	if err != nil {
		verifFail("c14-setup-failed")
	}
	cp, err := w.orc.Processors.Create(ctx, "proc", processor.Parent{ID: cn.ID, Type: processor.ParentTypeConnector}, processor.Config{Settings: map[string]string{"k": "v"}}, "")
	if err != nil {
		verifFail("c14-setup-failed")
	}
	// a second connector without processors, with a stored state (position)
	cn2, err := w.orc.Connectors.Create(ctx, connector.TypeSource, "builtin:x", pl.ID, connector.Config{Name: "c0", Settings: map[string]string{"k": "v"}})
	if err != nil {
		verifFail("c14-setup-failed")
	}
	if _, err := w.conns.SetState(ctx, cn2.ID, connector.SourceState{Position: opencdc.Position("p7")}); err != nil {
		verifFail("c14-setup-failed")
	}
	if verifBool("running") {
		_ = w.pipes.UpdateStatus(ctx, pl.ID, pipeline.StatusRunning, "")
	}
	running := pl.GetStatus() == pipeline.StatusRunning
	w.checkRefs()
	memBefore, storeBefore := w.memView(), w.storeKeys()
	rl, ok := w.reloadView()
	verifAssert(ok && sameStrings(rl, memBefore), "c14-restart-view-differs-after-setup")

	// one operation, one injected fault
	op := verifConcrete(verifChoice("op", 14))
	w.db.ops = 0
	w.db.failAt = verifConcrete(verifChoice("failAt", 7)) - 1
	doOp := func(op int) (opErr error) {
		switch op {
		case 0:
			_, opErr = w.orc.Pipelines.Create(ctx, pipeline.Config{Name: "p3"})
		case 1:
			_, opErr = w.orc.Pipelines.Create(ctx, pipeline.Config{Name: "p1"}) // duplicate name
		case 2:
			name := "p1-renamed"
			if verifBool("keepName") {
				name = "p1" // a description-only update
			}
			_, opErr = w.orc.Pipelines.Update(ctx, pl.ID, pipeline.Config{Name: name, Description: "new"})
		case 3:
			_, opErr = w.orc.Pipelines.Update(ctx, pl.ID, pipeline.Config{Name: "p2"}) // name taken
		case 4:
			_, opErr = w.orc.Pipelines.UpdateDLQ(ctx, pl.ID, pipeline.DLQ{Plugin: "builtin:file", WindowSize: 4, WindowNackThreshold: 2})
		case 5:
			opErr = w.orc.Pipelines.Delete(ctx, other.ID)
		case 6:
			_, opErr = w.orc.Connectors.Create(ctx, connector.TypeDestination, "builtin:y", pl.ID, connector.Config{Name: "c2"})
		case 7:
			_, opErr = w.orc.Connectors.Update(ctx, cn.ID, cn.Plugin, connector.Config{Name: "c1", Settings: map[string]string{"k": "v2"}})
		case 8:
			opErr = w.orc.Connectors.Delete(ctx, cn.ID) // has a processor attached: refused
		case 9:
			_, opErr = w.orc.Processors.Create(ctx, "proc", processor.Parent{ID: cn.ID, Type: processor.ParentTypeConnector}, processor.Config{Settings: map[string]string{"k": "w"}}, "cond")
		case 10:
			_, opErr = w.orc.Processors.Update(ctx, pp.ID, "proc", processor.Config{Settings: map[string]string{"k": "v2"}, Workers: 2})
		case 11:
			opErr = w.orc.Processors.Delete(ctx, cp.ID)
		case 12:
			opErr = w.orc.Connectors.Delete(ctx, cn2.ID)
		case 13:
			_, opErr = w.orc.Connectors.Update(ctx, cn2.ID, "builtin:other", connector.Config{Name: "c0", Settings: map[string]string{"k": "v3"}})
		}
		return opErr
	}
	opErr := doOp(op)
	w.db.failAt = -1
	faulted := w.db.ops > w.db.failAtSeen()

	memAfter, storeAfter := w.memView(), w.storeKeys()
	if opErr != nil {
		// all-or-nothing: a failed call leaves everything exactly as it was
		verifAssert(sameStrings(memAfter, memBefore), "c14-failed-call-changed-memory")
		verifAssert(sameStrings(storeAfter, storeBefore), "c14-failed-call-changed-store")
		verifCover("failed")
	} else {
		verifCover("succeeded")
	}
	if running && op >= 6 {
		// resources of a running pipeline are never modified
		verifAssert(opErr != nil, "c14-running-pipeline-modified")
	}
	rl, ok = w.reloadView()
	verifAssert(ok, "c14-restart-cannot-load-store")
	verifAssert(sameStrings(rl, memAfter), "c14-memory-differs-from-what-a-restart-loads")
	w.checkRefs()
	_ = faulted
	verifObserve("op", op, opErr != nil)

	// a second call (no fault) from the same set, then the same consistency checks
	if verifParam("second", 1) == 1 {
		op2 := verifConcrete(verifChoice("op2", 14))
		running = pl.GetStatus() == pipeline.StatusRunning
		memBefore, storeBefore = w.memView(), w.storeKeys()
		err2 := doOp(op2)
		memAfter, storeAfter = w.memView(), w.storeKeys()
		if err2 != nil {
			verifAssert(sameStrings(memAfter, memBefore), "c14-failed-call-changed-memory")
			verifAssert(sameStrings(storeAfter, storeBefore), "c14-failed-call-changed-store")
		}
		if running && op2 >= 6 {
			verifAssert(err2 != nil, "c14-running-pipeline-modified")
		}
		rl, ok = w.reloadView()
		verifAssert(ok && sameStrings(rl, memAfter), "c14-memory-differs-from-what-a-restart-loads")
		w.checkRefs()
	}
	// the name-uniqueness index agrees with the pipelines that exist
	for _, name := range []string{"p1", "p2", "p3", "p1-renamed"} {
		exists := false
		for _, p := range w.pipes.List(ctx) {
			if p.Config.Name == name {
				exists = true
			}
		}
		probe, perr := w.pipes.Create(ctx, "probe-"+name, pipeline.Config{Name: name}, pipeline.ProvisionTypeAPI)
		verifAssert((perr != nil) == exists, "c14-name-index-disagrees-with-existing-pipelines")
		if perr == nil {
			_ = w.pipes.Delete(ctx, probe.ID)
		}
	}
}

func (d *oDB) failAtSeen() int { return d.failAt }
