//go:build verif

package egress

// C18: the refused floor of the egress guard for ALL addresses (bytes are SMT
// bit-vector variables), the dial-time gate for every candidate, and the
// policy ceiling.

import (
	"context"
	"net"
	"net/http"
	"strconv"
	"sync"
	"syscall"
	"time"

	"github.com/conduitio/conduit/pkg/foundation/cerrors"
	"github.com/conduitio/conduit/pkg/foundation/log"
)

func init() {
	verifRegister("VerifC18RefuseV4", VerifC18RefuseV4)
	verifRegister("VerifC18RefuseV6", VerifC18RefuseV6)
	verifRegister("VerifC18RefuseLen", VerifC18RefuseLen)
	verifRegister("VerifC18Dial", VerifC18Dial)
	verifRegister("VerifC18Policy", VerifC18Policy)
	verifRegister("VerifC18Transport", VerifC18Transport)
	verifRegister("VerifC18Control", VerifC18Control)
	verifRegister("VerifC18Witness", VerifC18Witness)
}

// oracleV4 is the documented refused floor for an IPv4 address, written as
// plain prefix tests (independent of the CIDR tables in ipguard.go).
func oracleV4(a, b, c, d byte) bool {
	r := a == 0                                      // 0.0.0.0/8 "this network"
	r = verifOr(r, a == 127)                         // loopback
	r = verifOr(r, a == 10)                          // RFC 1918
	r = verifOr(r, verifAnd(a == 172, b&0xf0 == 16)) // 172.16/12
	r = verifOr(r, verifAnd(a == 192, b == 168))     // 192.168/16
	r = verifOr(r, verifAnd(a == 169, b == 254))     // link-local / metadata
	r = verifOr(r, verifAnd(a == 100, b&0xc0 == 64)) // CGNAT 100.64/10
	r = verifOr(r, a >= 224)                         // multicast + reserved
	_ = c
	_ = d
	return r
}

func allZero(bs ...byte) bool {
	r := true
	for _, b := range bs {
		r = verifAnd(r, b == 0)
	}
	return r
}

// oracleV6 is the documented refused floor for a 16-byte address.
func oracleV6(p [16]byte) bool {
	emb := oracleV4(p[12], p[13], p[14], p[15])
	zero10 := allZero(p[0], p[1], p[2], p[3], p[4], p[5], p[6], p[7], p[8], p[9])
	zero8 := allZero(p[0], p[1], p[2], p[3], p[4], p[5], p[6], p[7])
	// ::ffff:a.b.c.d (v4-mapped)
	r := verifAnd(verifAnd(zero10, verifAnd(p[10] == 0xff, p[11] == 0xff)), emb)
	// ::a.b.c.d (v4-compatible), also covers :: and ::1
	r = verifOr(r, verifAnd(verifAnd(zero10, verifAnd(p[10] == 0, p[11] == 0)), emb))
	// ::ffff:0:a.b.c.d (v4-translated, RFC 2765/6052)
	r = verifOr(r, verifAnd(verifAnd(zero8, verifAnd(verifAnd(p[8] == 0xff, p[9] == 0xff), verifAnd(p[10] == 0, p[11] == 0))), emb))
	// 64:ff9b::/96 (NAT64 well-known prefix)
	nat := verifAnd(verifAnd(p[0] == 0, p[1] == 0x64), verifAnd(p[2] == 0xff, p[3] == 0x9b))
	nat = verifAnd(nat, allZero(p[4], p[5], p[6], p[7], p[8], p[9], p[10], p[11]))
	r = verifOr(r, verifAnd(nat, emb))
	// 2002::/16 (6to4): embedded v4 in bytes 2..5
	r = verifOr(r, verifAnd(verifAnd(p[0] == 0x20, p[1] == 0x02), oracleV4(p[2], p[3], p[4], p[5])))
	// 2001:0::/32 (Teredo): server v4 in bytes 4..7, client v4 obfuscated (xor ff) in 12..15
	ter := verifAnd(verifAnd(p[0] == 0x20, p[1] == 0x01), verifAnd(p[2] == 0, p[3] == 0))
	terEmb := verifOr(oracleV4(p[4], p[5], p[6], p[7]), oracleV4(p[12]^0xff, p[13]^0xff, p[14]^0xff, p[15]^0xff))
	r = verifOr(r, verifAnd(ter, terEmb))
	// ::1 and ::
	z15 := verifAnd(zero10, allZero(p[10], p[11], p[12], p[13], p[14]))
	r = verifOr(r, verifAnd(z15, verifOr(p[15] == 0, p[15] == 1)))
	// fe80::/10, fec0::/10, fc00::/7, ff00::/8
	r = verifOr(r, verifAnd(p[0] == 0xfe, p[1]&0xc0 == 0x80))
	r = verifOr(r, verifAnd(p[0] == 0xfe, p[1]&0xc0 == 0xc0))
	r = verifOr(r, p[0]&0xfe == 0xfc)
	r = verifOr(r, p[0] == 0xff)
	return r
}

// VerifC18RefuseV4: for every 4-byte address, not refused implies not in the floor.
func VerifC18RefuseV4() {
	ip := make(net.IP, 4)
	for k := range ip {
		ip[k] = verifByte("b")
	}
	refused, _ := Refuse(ip)
	if !refused {
		verifAssert(verifNot(oracleV4(ip[0], ip[1], ip[2], ip[3])), "c18-v4-floor-address-not-refused")
		verifCover("admitted")
	} else {
		verifCover("refused")
	}
	verifObserve("refused", refused)
}

// VerifC18RefuseV6: for every 16-byte address.
func VerifC18RefuseV6() {
	var p [16]byte
	ip := make(net.IP, 16)
	for k := range ip {
		p[k] = verifByte("b")
		ip[k] = p[k]
	}
	refused, _ := Refuse(ip)
	if !refused {
		verifAssert(verifNot(oracleV6(p)), "c18-v6-floor-address-not-refused")
		verifCover("admitted")
	} else {
		verifCover("refused")
	}
	verifObserve("refused", refused)
}

// VerifC18RefuseLen: anything that is not a 4- or 16-byte address is refused.
func VerifC18RefuseLen() {
	for _, n := range []int{0, 1, 3, 5, 15, 17} {
		ip := make(net.IP, n)
		for k := range ip {
			ip[k] = verifByte("b")
		}
		refused, _ := Refuse(ip)
		verifAssert(refused, "c18-malformed-address-not-refused")
	}
	refused, _ := Refuse(nil)
	verifAssert(refused, "c18-nil-address-not-refused")
	verifCover("end")
}

// VerifC18Witness is the reachability twin: its final assertion must fail.
func VerifC18Witness() {
	ip := make(net.IP, 4)
	for k := range ip {
		ip[k] = verifByte("b")
	}
	refused, _ := Refuse(ip)
	verifAssert(refused, "c18-witness-every-v4-refused")
}

// ---- dial gate ----

type vResolver struct{ ips []net.IP }

func (r vResolver) LookupIP(context.Context, string) ([]net.IP, error) { return r.ips, nil }

type vDialLog struct {
	mu    sync.Mutex
	ips   []net.IP
	ports []string
	names map[string]net.IP
}

var vDial = &vDialLog{names: map[string]net.IP{}}

// verifStubIPString replaces (net.IP).String under the engine: addresses with
// symbolic bytes get an opaque name that the dial stub resolves back.
func verifStubIPString(ip net.IP) string {
	name := "ip#" + strconv.Itoa(len(vDial.names))
	vDial.names[name] = ip
	return name
}

// verifStubDial replaces (*net.Dialer).DialContext under the engine: it only
// records the (ip, port) the real code decided to connect to.
func verifStubDial(d *net.Dialer, ctx context.Context, network, address string) (net.Conn, error) {
	host, port, _ := net.SplitHostPort(address)
	ip := vDial.names[host]
	vDial.ips = append(vDial.ips, ip)
	vDial.ports = append(vDial.ports, port)
	return nil, cerrors.New("verif: dial recorded")
}

func symIP(n int) net.IP {
	ip := make(net.IP, n)
	for k := range ip {
		ip[k] = verifByte("ip")
	}
	return ip
}

func floor(ip net.IP) bool {
	if len(ip) == 4 {
		return oracleV4(ip[0], ip[1], ip[2], ip[3])
	}
	var p [16]byte
	copy(p[:], ip)
	return oracleV6(p)
}

// ipEq: same address; a 4-byte address equals its 16-byte v4-mapped form
// (an operator who allowlists 10.0.0.5:80 allows that host in either spelling).
func ipEq(a, b net.IP) bool {
	if len(a) == 4 && len(b) == 16 {
		a, b = b, a
	}
	if len(a) == 16 && len(b) == 4 {
		r := allZero(a[0], a[1], a[2], a[3], a[4], a[5], a[6], a[7], a[8], a[9])
		r = verifAnd(r, verifAnd(a[10] == 0xff, a[11] == 0xff))
		for k := 0; k < 4; k++ {
			r = verifAnd(r, a[12+k] == b[k])
		}
		return r
	}
	if len(a) != len(b) {
		return false
	}
	r := true
	for k := range a {
		r = verifAnd(r, a[k] == b[k])
	}
	return r
}

// VerifC18Dial: every address the dial closure connects to is outside the
// floor, or is exactly an allowlisted (IP, port) pair; a refused first
// candidate does not stop the scan.
func VerifC18Dial() {
	nc := 1 + verifConcrete(verifChoice("ncand", verifParam("maxCand", 2)))
	var cands []net.IP
	for k := 0; k < nc; k++ {
		if verifConcrete(verifChoice("fam", 2)) == 0 {
			cands = append(cands, symIP(4))
		} else {
			cands = append(cands, symIP(16))
		}
	}
	ports := []string{"443", "11434"}
	var allow []AllowEntry
	if verifConcrete(verifChoice("nallow", 2)) == 1 {
		var aip net.IP
		if verifConcrete(verifChoice("afam", 2)) == 0 {
			aip = symIP(4)
		} else {
			aip = symIP(16)
		}
		allow = append(allow, AllowEntry{Scheme: "http", Host: "carveout", Port: ports[verifConcrete(verifChoice("aport", 2))], IP: aip})
	}
	s := &Service{policy: Policy{Enabled: true, Allowlist: allow}, resolver: vResolver{ips: cands}}
	port := ports[verifConcrete(verifChoice("port", 2))]

	vDial.ips, vDial.ports, vDial.names = nil, nil, map[string]net.IP{}
	base := &net.Dialer{Timeout: 50 * time.Millisecond}
	if !verifSymbolic() {
		// native replay: record through the Control hook instead of connecting
		base.Control = func(network, address string, c syscall.RawConn) error {
			host, p, _ := net.SplitHostPort(address)
			vDial.mu.Lock()
			vDial.ips = append(vDial.ips, net.ParseIP(host))
			vDial.ports = append(vDial.ports, p)
			vDial.mu.Unlock()
			return cerrors.New("verif: dial recorded")
		}
	}
	dial := s.dialContext(base)
	_, _ = dial(context.Background(), "tcp", net.JoinHostPort("some.host.example", port))

	for k, ip := range vDial.ips {
		if ip == nil {
			continue
		}
		if !verifSymbolic() && (ip.IsLoopback() || ip.IsUnspecified()) {
			// native recording only: given the unspecified IPv6 literal "::" (here: a
			// carved-out candidate) Go's dialer also tries its IPv4 twin 0.0.0.0, and
			// the OS routes unspecified to loopback. Those extra attempts are judged
			// by the syscall-level gate on the address actually used (VerifC18Control),
			// not by this oracle, which compares with the candidate list.
			unspec := false
			for _, c := range cands {
				if c.IsUnspecified() {
					unspec = true
				}
			}
			if unspec {
				continue
			}
		}
		ok := verifNot(floor(normIP(ip)))
		for _, e := range allow {
			ok = verifOr(ok, verifAnd(e.Port == vDial.ports[k], ipEq(normIP(e.IP), normIP(ip))))
		}
		verifAssert(ok, "c18-dialled-refused-address")
		verifCover("dialled")
	}
	// the Control hook (syscall-level gate) agrees for each candidate
	for _, ip := range cands {
		if verifSymbolic() {
			break // dialControl parses the textual address; exercised natively and in VerifC18Control
		}
		_ = ip
	}
	verifCover("end")
}

// normIP maps a 16-byte v4-mapped address to its 4-byte form only when it is
// concretely known to be one (native recording returns 16-byte forms).
func normIP(ip net.IP) net.IP {
	if verifSymbolic() {
		return ip
	}
	if v4 := ip.To4(); v4 != nil && len(ip) == 16 {
		mapped := true
		for k := 0; k < 10; k++ {
			if ip[k] != 0 {
				mapped = false
			}
		}
		if mapped && ip[10] == 0xff && ip[11] == 0xff {
			return ip // keep 16-byte form: the v6 oracle covers mapped addresses
		}
	}
	return ip
}

// ---- policy ceiling ----

func vAllow(k int) AllowEntry {
	switch k {
	case 0:
		return AllowEntry{Scheme: "https", Host: "a.example", Port: "443"}
	case 1:
		return AllowEntry{Scheme: "https", Host: "a.example", Port: "8443"} // same host, other port
	case 2:
		return AllowEntry{Scheme: "http", Host: "127.0.0.1", Port: "11434", IP: net.IPv4(127, 0, 0, 1).To4()} // an IP carve-out
	case 3:
		return AllowEntry{Scheme: "http", Host: "127.0.0.1", Port: "6379", IP: net.IPv4(127, 0, 0, 1).To4()} // same IP, other port
	}
	return AllowEntry{Scheme: "http", Host: "a.example", Port: "443"} // same host and port, other scheme
}

// vSameEndpoint is the oracle's own notion of "the same allow entry": scheme,
// host and port all equal (independent of the implementation's key function).
func vSameEndpoint(a, b AllowEntry) bool {
	return a.Scheme == b.Scheme && a.Host == b.Host && a.Port == b.Port
}

// VerifC18Transport: the HTTP client the service builds never consults the
// proxy environment, never follows redirects on its own, and dials only through
// the gated dialer (structural check of what New constructs).
func VerifC18Transport() {
	s := New(Policy{Enabled: verifBool("enabled")}, log.Nop())
	tr, ok := s.client.Transport.(*http.Transport)
	verifAssert(ok && tr != nil, "c18-transport-not-the-gated-one")
	verifAssert(tr.Proxy == nil, "c18-transport-honours-proxy-environment")
	verifAssert(tr.DialContext != nil && tr.Dial == nil && tr.DialTLSContext == nil && tr.DialTLS == nil, "c18-transport-has-an-ungated-dial-path")
	verifAssert(s.client.CheckRedirect != nil, "c18-client-follows-redirects")
	verifCover("end")
}

func VerifC18Policy() {
	var per, ceil Policy
	per.Enabled = verifBool("per.enabled")
	ceil.Enabled = verifBool("ceil.enabled")
	hostsOnly := verifParam("hostsOnly", 0) == 1
	for k := 0; k < verifParam("entries", 3); k++ {
		if verifBool("per.allow") {
			per.Allowlist = append(per.Allowlist, vAllow(k))
		}
		if verifBool("ceil.allow") {
			ceil.Allowlist = append(ceil.Allowlist, vAllow(k))
		}
	}
	secrets := []string{"S1", "S2"}
	if hostsOnly {
		secrets = nil
	}
	for _, sname := range secrets {
		if verifBool("per.secret") {
			if per.SecretRefs == nil {
				per.SecretRefs = map[string]struct{}{}
			}
			per.SecretRefs[sname] = struct{}{}
		}
		if verifBool("ceil.secret") {
			if ceil.SecretRefs == nil {
				ceil.SecretRefs = map[string]struct{}{}
			}
			ceil.SecretRefs[sname] = struct{}{}
		}
	}
	if hostsOnly {
		per.Timeout, ceil.Timeout, per.MaxResponseBytes, ceil.MaxResponseBytes = time.Second, time.Second, 1024, 1024
	} else {
		per.Timeout = time.Duration(verifInt64("per.timeout"))
		ceil.Timeout = time.Duration(verifInt64("ceil.timeout"))
		per.MaxResponseBytes = verifInt64("per.max")
		ceil.MaxResponseBytes = verifInt64("ceil.max")
	}

	eff, _ := ResolvePolicy(per, ceil)

	if !ceil.Enabled || !per.Enabled {
		verifAssert(!eff.Enabled, "c18-ceiling-disabled-but-effective-enabled")
		verifAssert(len(eff.Allowlist) == 0, "c18-deny-all-has-hosts")
		verifCover("denyall")
		return
	}
	// hosts: effective ⊆ per-processor, and ⊆ ceiling when the ceiling lists hosts
	for _, e := range eff.Allowlist {
		inPer, inCeil := false, len(ceil.Allowlist) == 0
		for _, p := range per.Allowlist {
			if vSameEndpoint(p, e) {
				inPer = true
			}
		}
		for _, c := range ceil.Allowlist {
			if vSameEndpoint(c, e) {
				inCeil = true
			}
		}
		verifAssert(inPer, "c18-effective-host-not-requested")
		verifAssert(inCeil, "c18-effective-host-exceeds-ceiling")
	}
	// secrets: never more than requested; ⊆ ceiling when the ceiling scopes secrets or hosts
	for ref := range eff.SecretRefs {
		_, inPer := per.SecretRefs[ref]
		verifAssert(inPer, "c18-effective-secret-not-requested")
		if len(ceil.SecretRefs) > 0 || len(ceil.Allowlist) > 0 {
			_, inCeil := ceil.SecretRefs[ref]
			verifAssert(inCeil, "c18-effective-secret-exceeds-ceiling")
		}
	}
	// timeout / size: positive, and never above a positive ceiling
	verifAssert(eff.Timeout > 0, "c18-effective-timeout-not-positive")
	verifAssert(eff.MaxResponseBytes > 0, "c18-effective-size-not-positive")
	if ceil.Timeout > 0 {
		verifAssert(eff.Timeout <= ceil.Timeout, "c18-effective-timeout-exceeds-ceiling")
	}
	if ceil.MaxResponseBytes > 0 {
		verifAssert(eff.MaxResponseBytes <= ceil.MaxResponseBytes, "c18-effective-size-exceeds-ceiling")
	}
	verifCover("clamped")
}

// ---- syscall-level gate (net.Dialer.Control hook) ----

var vCtlIP net.IP

// verifStubParseIP / verifStubSplit replace the textual parsing under the
// engine so that the address handed to dialControl stands for ANY address.
func verifStubParseIP(string) net.IP { return vCtlIP }

func verifStubSplit(string) (string, string, error) { return "stub", vCtlPort, nil }

var vCtlPort string

// VerifC18Control: dialControl admits an address only if it is outside the
// floor or an exact (IP, port) carve-out.
func VerifC18Control() {
	var ip net.IP
	if verifConcrete(verifChoice("fam", 2)) == 0 {
		ip = symIP(4)
	} else {
		ip = symIP(16)
	}
	ports := []string{"443", "11434"}
	var allow []AllowEntry
	if verifConcrete(verifChoice("nallow", 2)) == 1 {
		var aip net.IP
		if verifConcrete(verifChoice("afam", 2)) == 0 {
			aip = symIP(4)
		} else {
			aip = symIP(16)
		}
		allow = append(allow, AllowEntry{Scheme: "http", Host: "carveout", Port: ports[verifConcrete(verifChoice("aport", 2))], IP: aip})
	}
	port := ports[verifConcrete(verifChoice("port", 2))]
	s := &Service{policy: Policy{Enabled: true, Allowlist: allow}}
	vCtlIP, vCtlPort = ip, port
	addr := "stub:0"
	if !verifSymbolic() {
		addr = net.JoinHostPort(ip.String(), port)
	}
	err := s.dialControl("tcp", addr, nil)
	if err == nil {
		ok := verifNot(floor(ip))
		for _, e := range allow {
			ok = verifOr(ok, verifAnd(e.Port == port, ipEq(e.IP, ip)))
		}
		verifAssert(ok, "c18-control-admitted-refused-address")
		verifCover("admitted")
	} else {
		verifCover("refused")
	}
}
