//go:build verif

package processor

// C09 (processor reply shapes, host side): the real RunnableProcessor.Process
// with a condition, over every per-record condition outcome (keep / pass
// through / evaluation error) and every reply shape of the plugin (fewer, as
// many, or more results than records handed to it; any result kind). Whatever
// the plugin answers, Process must not panic, must keep passed-through records
// at their positions unchanged, and must never return more results than records.

import (
	"context"
	"strconv"

	"github.com/conduitio/conduit-commons/opencdc"
	sdk "github.com/conduitio/conduit-processor-sdk"
	"github.com/conduitio/conduit/pkg/foundation/cerrors"
	"github.com/conduitio/conduit/pkg/foundation/log"
	"github.com/conduitio/conduit/pkg/inspector"
)

func init() { verifRegister("VerifC09Runnable", VerifC09Runnable) }

// rProc is the plugin: it answers with a reply chosen by the harness.
type rProc struct {
	sdk.UnimplementedProcessor
	got   [][]opencdc.Record
	reply func(in []opencdc.Record) []sdk.ProcessedRecord
}

func (p *rProc) Process(_ context.Context, recs []opencdc.Record) []sdk.ProcessedRecord {
	p.got = append(p.got, recs)
	return p.reply(recs)
}

// verifStubEvaluate replaces (*processorCondition).Evaluate under the engine
// (text/template is reflection based); natively the real template below runs
// and gives the same three outcomes.
func verifStubEvaluate(_ *processorCondition, rec opencdc.Record) (bool, error) {
	switch rec.Metadata["k"] {
	case "true":
		return true, nil
	case "false":
		return false, nil
	}
	return false, cerrors.New("error converting the condition go-template output to boolean")
}

func VerifC09Runnable() {
	n := 1 + verifConcrete(verifChoice("n", verifParam("maxrecs", 3)))
	recs := make([]opencdc.Record, n)
	kinds := make([]int, n) // 0 keep, 1 pass through, 2 condition error
	kept := 0
	firstErr := -1
	for i := range recs {
		kinds[i] = verifConcrete(verifChoice("cond", 3))
		v := []string{"true", "false", "boom"}[kinds[i]]
		recs[i] = opencdc.Record{Position: opencdc.Position("p" + strconv.Itoa(i)), Metadata: opencdc.Metadata{"k": v}}
		if firstErr < 0 {
			if kinds[i] == 0 {
				kept++
			}
			if kinds[i] == 2 {
				firstErr = i
			}
		}
	}
	var cond *processorCondition
	var err error
	if verifSymbolic() {
		cond = &processorCondition{condition: "stub"}
	} else {
		cond, err = newProcessorCondition(`{{ index .Metadata "k" }}`)
	}
	if err != nil || cond == nil {
		verifFail("c09-condition-setup")
	}
	pl := &rProc{}
	replies := -1
	pl.reply = func(in []opencdc.Record) []sdk.ProcessedRecord {
		// any number of results from 0 to len(in)+1, each of any kind
		m := verifConcrete(verifChoice("replies", len(in)+2))
		replies = m
		out := make([]sdk.ProcessedRecord, m)
		for j := range out {
			switch verifConcrete(verifChoice("kind", 3)) {
			case 0:
				r := opencdc.Record{Position: opencdc.Position("out" + strconv.Itoa(j))}
				if j < len(in) {
					r.Position = in[j].Position
				}
				out[j] = sdk.SingleRecord(r)
			case 1:
				out[j] = sdk.FilterRecord{}
			default:
				out[j] = sdk.ErrorRecord{Error: cerrors.New("plugin error")}
			}
		}
		return out
	}
	inst := &Instance{ID: "proc", Plugin: "fake"}
	inst.inInsp = inspector.New(log.Nop(), 1)
	inst.outInsp = inspector.New(log.Nop(), 1)
	p := newRunnableProcessor(pl, cond, inst)

	out := p.Process(context.Background(), recs)

	verifAssert(len(out) <= n, "c09-more-results-than-records")
	if replies > kept {
		// surplus results: the documented answer is a single error for the batch
		_, isErr := out[0].(sdk.ErrorRecord)
		verifAssert(len(out) == 1 && isErr, "c09-surplus-results-not-refused")
		verifCover("end")
		return
	}
	if replies >= 0 && replies < kept {
		// a short reply: nothing beyond the first unanswered kept record is returned
		verifAssert(len(out) < n, "c09-short-reply-not-kept-short")
	}
	if len(pl.got) > 0 {
		verifAssert(len(pl.got) == 1 && len(pl.got[0]) == kept, "c09-plugin-got-wrong-records")
	}
	// passed-through records keep their place and content; a kept record's slot
	// never holds another record's pass-through
	for i := 0; i < len(out); i++ {
		if sr, ok := out[i].(sdk.SingleRecord); ok && (firstErr < 0 || i < firstErr) {
			if kinds[i] == 1 {
				verifAssert(string(sr.Position) == "p"+strconv.Itoa(i), "c09-passthrough-record-moved")
			} else {
				// a processed record: carries the position of a KEPT input record
				pos := string(sr.Position)
				if len(pos) > 1 && pos[0] == 'p' {
					k, _ := strconv.Atoi(pos[1:])
					verifAssert(k < n && kinds[k] == 0, "c09-result-placed-on-wrong-record")
					verifAssert(k == i, "c09-result-placed-on-wrong-record")
					verifAssert(k == i, "c08-result-attributed-to-another-record")
				}
			}
		} else if kinds[i] == 1 && (firstErr < 0 || i < firstErr) {
			verifFail("c09-passthrough-record-replaced")
		}
	}
	verifCover("end")
	verifObserve("runnable", n, len(out))
}
