// Package zzverifvfs is the environment model the C19 harnesses link the
// registry code against: an in-memory file system with POSIX-like semantics
// (atomic rename, non-atomic write, explicit fsync durability), advisory file
// locks, a snapshot JSON codec and a fake tar/gzip reader. The check rewrites
// the os./flock./json./tar./gzip./io.Copy selectors of the registry sources to
// the functions below (the rewritten sources are regenerated from /repo on
// every run and are used both by the symbolic engine and by native replay).
//
// Fault injection and crash points are callbacks (Fault, Step) installed by the
// harness, so that which operation fails / where the process dies is a symbolic
// choice of the harness.
package zzverifvfs

import (
	"archive/tar"
	"context"
	"fmt"
	"io"
	"io/fs"
	"os"
	"path/filepath"
	"strings"
	"sync"
	"syscall"
	"time"
)

type node struct {
	path   string
	dir    bool
	data   []byte // materialised content (nil when only size is tracked)
	size   int64
	synced int64 // durable prefix length
	mode   os.FileMode
	mtime  time.Time
	gone   bool
}

// FS is one in-memory file system.
type FS struct {
	mu    sync.Mutex
	nodes []*node
	seq   int

	// Fault, when set, is asked before every operation that can fail; true
	// makes the operation fail with EIO (nothing is changed).
	Fault func(op, path string) bool
	// Step, when set, is called at every point where a crash would observe a
	// distinct durable state (before each mutating operation, and in the
	// middle of multi-byte writes).
	Step func(op, path string)
	// Created logs every path created or written to (op:path), in order.
	Created []string

	locks []string
	// Untar maps archive bytes to the entries the fake tar reader yields.
	Untar func(content []byte) ([]TarEntry, bool)
	// Entry, when set, produces the entries lazily instead (ok=false: end of archive).
	Entry func(i int) (TarEntry, bool)
	// Clone / Assign implement the snapshot JSON codec for the harness's types.
	Clone  func(v any) any
	Assign func(dst, src any) bool
	docs   []any
}

// Cur is the file system the rewritten code operates on.
var Cur *FS

func New() *FS {
	f := &FS{}
	f.nodes = append(f.nodes, &node{path: "/", dir: true, mode: 0o755})
	return f
}

func clean(p string) string {
	if p == "" {
		return "."
	}
	if !strings.HasPrefix(p, "/") {
		p = "/cwd/" + p
	}
	return filepath.Clean(p)
}

func (f *FS) find(p string) *node {
	for _, n := range f.nodes {
		if !n.gone && n.path == p {
			return n
		}
	}
	return nil
}

func (f *FS) step(op, p string) {
	if f.Step != nil {
		f.Step(op, p)
	}
}

func (f *FS) fault(op, p string) bool {
	return f.Fault != nil && f.Fault(op, p)
}

func perr(op, p string, e error) error { return &fs.PathError{Op: op, Path: p, Err: e} }

// IsNotExist mirrors os.IsNotExist.
func IsNotExist(err error) bool {
	for err != nil {
		if err == fs.ErrNotExist || err == syscall.ENOENT {
			return true
		}
		pe, ok := err.(*fs.PathError)
		if !ok {
			return false
		}
		err = pe.Err
	}
	return false
}

// IsExist mirrors os.IsExist.
func IsExist(err error) bool {
	for err != nil {
		if err == fs.ErrExist || err == syscall.EEXIST || err == syscall.ENOTEMPTY {
			return true
		}
		pe, ok := err.(*fs.PathError)
		if !ok {
			return false
		}
		err = pe.Err
	}
	return false
}

// IsPermission mirrors os.IsPermission (the model never refuses for permissions).
func IsPermission(err error) bool { return false }

// ---- inspection (harness side) ----

// Exists reports whether p exists and whether it is a directory.
func (f *FS) Exists(p string) (bool, bool) {
	n := f.find(clean(p))
	if n == nil {
		return false, false
	}
	return true, n.dir
}

// Content returns the current content and size of file p.
func (f *FS) Content(p string) ([]byte, int64, bool) {
	n := f.find(clean(p))
	if n == nil || n.dir {
		return nil, 0, false
	}
	return n.data, n.size, true
}

// Durable returns what a crash right now would leave at p: ok=false when p does
// not exist; torn=true when part of the content was never fsynced.
func (f *FS) Durable(p string) (data []byte, ok, torn bool) {
	n := f.find(clean(p))
	if n == nil || n.dir {
		return nil, false, false
	}
	if n.synced < n.size {
		if n.data != nil && n.synced <= int64(len(n.data)) {
			return n.data[:n.synced], true, true
		}
		return nil, true, true
	}
	return n.data, true, false
}

// Paths lists all existing paths in creation order.
func (f *FS) Paths() []string {
	var out []string
	for _, n := range f.nodes {
		if !n.gone {
			out = append(out, n.path)
		}
	}
	return out
}

// Put creates file p (and parents) with durable content.
func (f *FS) Put(p string, data []byte) {
	p = clean(p)
	f.mkdirAll(filepath.Dir(p))
	if n := f.find(p); n != nil {
		n.data, n.size, n.synced = data, int64(len(data)), int64(len(data))
		return
	}
	f.nodes = append(f.nodes, &node{path: p, data: data, size: int64(len(data)), synced: int64(len(data)), mode: 0o644})
}

// PutDir creates directory p and its parents.
func (f *FS) PutDir(p string) { f.mkdirAll(clean(p)) }

func (f *FS) mkdirAll(p string) error {
	if p == "/" || p == "." {
		return nil
	}
	if n := f.find(p); n != nil {
		if n.dir {
			return nil
		}
		return perr("mkdir", p, syscall.ENOTDIR)
	}
	if err := f.mkdirAll(filepath.Dir(p)); err != nil {
		return err
	}
	f.nodes = append(f.nodes, &node{path: p, dir: true, mode: 0o700})
	f.Created = append(f.Created, "mkdir:"+p)
	return nil
}

func (f *FS) parentDir(p string) error {
	d := f.find(filepath.Dir(p))
	if d == nil {
		return syscall.ENOENT
	}
	if !d.dir {
		return syscall.ENOTDIR
	}
	return nil
}

// ---- os replacements ----

func MkdirAll(p string, perm os.FileMode) error {
	f := Cur
	p = clean(p)
	f.step("mkdirall", p)
	if f.fault("mkdirall", p) {
		return perr("mkdir", p, syscall.EIO)
	}
	return f.mkdirAll(p)
}

func (f *FS) tempName(dir, pattern string) string {
	f.seq++
	id := fmt.Sprintf("%04d", f.seq)
	if k := strings.LastIndex(pattern, "*"); k >= 0 {
		return filepath.Join(dir, pattern[:k]+id+pattern[k+1:])
	}
	return filepath.Join(dir, pattern+id)
}

func MkdirTemp(dir, pattern string) (string, error) {
	f := Cur
	dir = clean(dir)
	f.step("mkdirtemp", dir)
	if f.fault("mkdirtemp", dir) {
		return "", perr("mkdirtemp", dir, syscall.EIO)
	}
	p := f.tempName(dir, pattern)
	if err := f.parentDir(p); err != nil {
		return "", perr("mkdirtemp", p, err)
	}
	f.nodes = append(f.nodes, &node{path: p, dir: true, mode: 0o700})
	f.Created = append(f.Created, "mkdir:"+p)
	return p, nil
}

func Chmod(p string, mode os.FileMode) error {
	f := Cur
	p = clean(p)
	f.step("chmod", p)
	if f.fault("chmod", p) {
		return perr("chmod", p, syscall.EIO)
	}
	n := f.find(p)
	if n == nil {
		return perr("chmod", p, syscall.ENOENT)
	}
	n.mode = mode
	return nil
}

func (f *FS) removeTree(p string) {
	for _, n := range f.nodes {
		if !n.gone && (n.path == p || strings.HasPrefix(n.path, p+"/")) {
			n.gone = true
		}
	}
}

func RemoveAll(p string) error {
	f := Cur
	p = clean(p)
	f.step("removeall", p)
	if f.fault("removeall", p) {
		return perr("removeall", p, syscall.EIO)
	}
	f.removeTree(p)
	return nil
}

func Remove(p string) error {
	f := Cur
	p = clean(p)
	f.step("remove", p)
	n := f.find(p)
	if n == nil {
		return perr("remove", p, syscall.ENOENT)
	}
	if n.dir {
		for _, c := range f.nodes {
			if !c.gone && strings.HasPrefix(c.path, p+"/") {
				return perr("remove", p, syscall.ENOTEMPTY)
			}
		}
	}
	n.gone = true
	return nil
}

func Rename(oldp, newp string) error {
	f := Cur
	oldp, newp = clean(oldp), clean(newp)
	f.step("rename", newp)
	if f.fault("rename", newp) {
		return perr("rename", newp, syscall.EIO)
	}
	n := f.find(oldp)
	if n == nil {
		return perr("rename", oldp, syscall.ENOENT)
	}
	if err := f.parentDir(newp); err != nil {
		return perr("rename", newp, err)
	}
	if t := f.find(newp); t != nil {
		if t.dir != n.dir {
			if t.dir {
				return perr("rename", newp, syscall.EISDIR)
			}
			return perr("rename", newp, syscall.ENOTDIR)
		}
		if t.dir {
			for _, c := range f.nodes {
				if !c.gone && strings.HasPrefix(c.path, newp+"/") {
					return perr("rename", newp, syscall.ENOTEMPTY)
				}
			}
		}
		t.gone = true
	}
	if n.dir {
		for _, c := range f.nodes {
			if !c.gone && strings.HasPrefix(c.path, oldp+"/") {
				c.path = newp + c.path[len(oldp):]
			}
		}
	}
	n.path = newp
	f.Created = append(f.Created, "rename:"+newp)
	return nil
}

func ReadFile(p string) ([]byte, error) {
	f := Cur
	p = clean(p)
	if f.fault("readfile", p) {
		return nil, perr("open", p, syscall.EIO)
	}
	n := f.find(p)
	if n == nil {
		return nil, perr("open", p, syscall.ENOENT)
	}
	if n.dir {
		return nil, perr("read", p, syscall.EISDIR)
	}
	out := make([]byte, len(n.data))
	copy(out, n.data)
	return out, nil
}

func WriteFile(p string, data []byte, perm os.FileMode) error {
	fl, err := OpenFile(p, os.O_WRONLY|os.O_CREATE|os.O_TRUNC, perm)
	if err != nil {
		return err
	}
	_, err = fl.Write(data)
	if cerr := fl.Close(); err == nil {
		err = cerr
	}
	return err
}

// File mirrors the part of *os.File the registry code uses.
type File struct {
	fs     *FS
	n      *node
	name   string
	app    bool
	rd     bool
	closed bool
	off    int64
}

func CreateTemp(dir, pattern string) (*File, error) {
	f := Cur
	dir = clean(dir)
	f.step("createtemp", dir)
	if f.fault("createtemp", dir) {
		return nil, perr("createtemp", dir, syscall.EIO)
	}
	p := f.tempName(dir, pattern)
	if err := f.parentDir(p); err != nil {
		return nil, perr("createtemp", p, err)
	}
	n := &node{path: p, mode: 0o600}
	f.nodes = append(f.nodes, n)
	f.Created = append(f.Created, "create:"+p)
	return &File{fs: f, n: n, name: p}, nil
}

func Open(p string) (*File, error) { return OpenFile(p, os.O_RDONLY, 0) }

func Create(p string) (*File, error) {
	return OpenFile(p, os.O_RDWR|os.O_CREATE|os.O_TRUNC, 0o666)
}

func Mkdir(p string, perm os.FileMode) error {
	f := Cur
	p = clean(p)
	f.step("mkdir", p)
	if f.fault("mkdir", p) {
		return perr("mkdir", p, syscall.EIO)
	}
	if f.find(p) != nil {
		return perr("mkdir", p, syscall.EEXIST)
	}
	if err := f.parentDir(p); err != nil {
		return perr("mkdir", p, err)
	}
	f.nodes = append(f.nodes, &node{path: p, dir: true, mode: perm})
	f.Created = append(f.Created, "mkdir:"+p)
	return nil
}

// Symlink and Link create link nodes; the model does not resolve through them
// (opening one fails), it only records that they were created.
func Symlink(oldname, newname string) error { return mklink("symlink", newname) }
func Link(oldname, newname string) error    { return mklink("link", newname) }

func mklink(op, newname string) error {
	f := Cur
	p := clean(newname)
	f.step(op, p)
	if f.find(p) != nil {
		return perr(op, p, syscall.EEXIST)
	}
	if err := f.parentDir(p); err != nil {
		return perr(op, p, err)
	}
	f.nodes = append(f.nodes, &node{path: p, mode: os.ModeSymlink})
	f.Created = append(f.Created, op+":"+p)
	return nil
}

func Truncate(p string, size int64) error {
	f := Cur
	p = clean(p)
	f.step("truncate", p)
	n := f.find(p)
	if n == nil {
		return perr("truncate", p, syscall.ENOENT)
	}
	if size < n.size {
		if n.data != nil && size <= int64(len(n.data)) {
			n.data = n.data[:size]
		}
		n.size = size
		if n.synced > size {
			n.synced = size
		}
	}
	return nil
}

func OpenFile(p string, flag int, perm os.FileMode) (*File, error) {
	f := Cur
	p = clean(p)
	wr := flag&(os.O_WRONLY|os.O_RDWR) != 0
	if wr {
		f.step("open", p)
	}
	if f.fault("open", p) {
		return nil, perr("open", p, syscall.EIO)
	}
	n := f.find(p)
	if n == nil {
		if flag&os.O_CREATE == 0 {
			return nil, perr("open", p, syscall.ENOENT)
		}
		if err := f.parentDir(p); err != nil {
			return nil, perr("open", p, err)
		}
		n = &node{path: p, mode: perm}
		f.nodes = append(f.nodes, n)
		f.Created = append(f.Created, "create:"+p)
	} else {
		if flag&os.O_CREATE != 0 && flag&os.O_EXCL != 0 {
			return nil, perr("open", p, syscall.EEXIST)
		}
		if n.dir && wr {
			return nil, perr("open", p, syscall.EISDIR)
		}
		if wr {
			f.Created = append(f.Created, "write:"+p)
		}
		if wr && flag&os.O_TRUNC != 0 {
			n.data, n.size, n.synced = nil, 0, 0
		}
	}
	return &File{fs: f, n: n, name: p, app: flag&os.O_APPEND != 0, rd: !wr}, nil
}

func (fl *File) Name() string { return fl.name }

func (fl *File) Write(p []byte) (int, error) {
	f := fl.fs
	if fl.closed || fl.rd {
		return 0, perr("write", fl.name, os.ErrClosed)
	}
	f.step("write", fl.name)
	if f.fault("write", fl.name) {
		return 0, perr("write", fl.name, syscall.EIO)
	}
	if len(p) > 1 {
		h := len(p) / 2
		fl.n.data = append(fl.n.data, p[:h]...)
		fl.n.size += int64(h)
		f.step("midwrite", fl.name)
		fl.n.data = append(fl.n.data, p[h:]...)
		fl.n.size += int64(len(p) - h)
	} else {
		fl.n.data = append(fl.n.data, p...)
		fl.n.size += int64(len(p))
	}
	return len(p), nil
}

func (fl *File) Sync() error {
	f := fl.fs
	if fl.closed {
		return perr("sync", fl.name, os.ErrClosed)
	}
	f.step("sync", fl.name)
	if f.fault("sync", fl.name) {
		return perr("sync", fl.name, syscall.EIO)
	}
	fl.n.synced = fl.n.size
	return nil
}

func (fl *File) Close() error {
	if fl.closed {
		return perr("close", fl.name, os.ErrClosed)
	}
	fl.closed = true
	if !fl.rd && fl.fs.fault("close", fl.name) {
		return perr("close", fl.name, syscall.EIO)
	}
	return nil
}

func (fl *File) Read(p []byte) (int, error) {
	if fl.off >= int64(len(fl.n.data)) {
		return 0, io.EOF
	}
	k := copy(p, fl.n.data[fl.off:])
	fl.off += int64(k)
	return k, nil
}

type fileInfo struct {
	name  string
	size  int64
	mode  os.FileMode
	mtime time.Time
	dir   bool
}

func (i fileInfo) Name() string { return i.name }
func (i fileInfo) Size() int64  { return i.size }
func (i fileInfo) Mode() os.FileMode {
	if i.dir {
		return i.mode | os.ModeDir
	}
	return i.mode
}
func (i fileInfo) ModTime() time.Time         { return i.mtime }
func (i fileInfo) IsDir() bool                { return i.dir }
func (i fileInfo) Sys() any                   { return nil }
func (i fileInfo) Type() os.FileMode          { return i.Mode() & os.ModeType }
func (i fileInfo) Info() (os.FileInfo, error) { return i, nil }

func infoOf(n *node) fileInfo {
	return fileInfo{name: filepath.Base(n.path), size: n.size, mode: n.mode, mtime: n.mtime, dir: n.dir}
}

func (fl *File) Stat() (os.FileInfo, error) { return infoOf(fl.n), nil }

func Stat(p string) (os.FileInfo, error) {
	f := Cur
	p = clean(p)
	n := f.find(p)
	if n == nil {
		return nil, perr("stat", p, syscall.ENOENT)
	}
	return infoOf(n), nil
}

func Lstat(p string) (os.FileInfo, error) { return Stat(p) }

func ReadDir(p string) ([]os.DirEntry, error) {
	f := Cur
	p = clean(p)
	d := f.find(p)
	if d == nil {
		return nil, perr("readdir", p, syscall.ENOENT)
	}
	var out []os.DirEntry
	for _, n := range f.nodes {
		if !n.gone && n.path != p && filepath.Dir(n.path) == p {
			out = append(out, infoOf(n))
		}
	}
	return out, nil
}

// ---- advisory locks (gofrs/flock replacement) ----

type Flock struct {
	fs   *FS
	path string
	held bool
}

func NewFlock(path string) *Flock { return &Flock{fs: Cur, path: clean(path)} }

func (l *Flock) tryLock() bool {
	f := l.fs
	f.mu.Lock()
	defer f.mu.Unlock()
	for _, p := range f.locks {
		if p == l.path {
			return false
		}
	}
	f.locks = append(f.locks, l.path)
	l.held = true
	return true
}

func (l *Flock) TryLockContext(ctx context.Context, retry time.Duration) (bool, error) {
	if l.fs.fault("flock", l.path) {
		return false, perr("flock", l.path, syscall.EIO)
	}
	if l.fs.find(l.path) == nil {
		if err := l.fs.parentDir(l.path); err != nil {
			return false, perr("flock", l.path, err)
		}
		l.fs.nodes = append(l.fs.nodes, &node{path: l.path, mode: 0o600})
	}
	for i := 0; i < 100000; i++ {
		if l.tryLock() {
			return true, nil
		}
		if ctx.Err() != nil {
			return false, ctx.Err()
		}
		time.Sleep(retry)
	}
	return false, nil
}

func (l *Flock) Unlock() error {
	f := l.fs
	f.mu.Lock()
	defer f.mu.Unlock()
	if !l.held {
		return nil
	}
	l.held = false
	for i, p := range f.locks {
		if p == l.path {
			f.locks = append(f.locks[:i:i], f.locks[i+1:]...)
			break
		}
	}
	return nil
}

// Locked reports whether the advisory lock at path is currently held.
func (f *FS) Locked(path string) bool {
	f.mu.Lock()
	defer f.mu.Unlock()
	for _, p := range f.locks {
		if p == clean(path) {
			return true
		}
	}
	return false
}

// ---- snapshot JSON codec ----

// JSONMarshal stores a deep copy of v and returns a token document for it. The
// token has the shape {"doc":NNNN} so that a truncated document never parses.
func JSONMarshal(v any) ([]byte, error) {
	f := Cur
	if f.Clone == nil {
		return nil, fmt.Errorf("zzverifvfs: no codec")
	}
	c := f.Clone(v)
	if c == nil {
		return nil, fmt.Errorf("zzverifvfs: unsupported type %T", v)
	}
	f.docs = append(f.docs, c)
	return []byte(fmt.Sprintf("{\"doc\":%04d}", len(f.docs)-1)), nil
}

func JSONMarshalIndent(v any, _, _ string) ([]byte, error) { return JSONMarshal(v) }

// DocID parses a token document; ok=false for anything else (torn documents).
func DocID(data []byte) (int, bool) {
	s := strings.TrimSuffix(string(data), "\n")
	if len(s) != 12 || !strings.HasPrefix(s, "{\"doc\":") || s[11] != '}' {
		return 0, false
	}
	id := 0
	for _, c := range s[7:11] {
		if c < '0' || c > '9' {
			return 0, false
		}
		id = id*10 + int(c-'0')
	}
	return id, true
}

func JSONUnmarshal(data []byte, dst any) error {
	f := Cur
	id, ok := DocID(data)
	if !ok || id >= len(f.docs) {
		return fmt.Errorf("zzverifvfs: invalid document %q", string(data))
	}
	if f.Assign == nil || !f.Assign(dst, f.Clone(f.docs[id])) {
		return fmt.Errorf("zzverifvfs: cannot decode into %T", dst)
	}
	return nil
}

// Doc returns the value stored for document id.
func (f *FS) Doc(id int) any {
	if id < 0 || id >= len(f.docs) {
		return nil
	}
	return f.docs[id]
}

// ---- fake gzip/tar ----

// TarEntry is one entry of a fake archive. Size may be symbolic; Data, when
// non-nil, is the (concrete) content and Size == len(Data).
type TarEntry struct {
	Name     string
	Typeflag byte
	Linkname string
	Size     int64
	Data     []byte
}

type Gz struct {
	content []byte
}

func GzipNewReader(fl *File) (*Gz, error) {
	f := Cur
	if f.Untar == nil {
		return nil, fmt.Errorf("gzip: invalid header")
	}
	if _, ok := f.Untar(fl.n.data); !ok {
		return nil, fmt.Errorf("gzip: invalid header")
	}
	return &Gz{content: fl.n.data}, nil
}

func (g *Gz) Close() error { return nil }

type TarReader struct {
	ents []TarEntry
	i    int
	rem  int64
	cur  *TarEntry
}

func TarNewReader(g *Gz) *TarReader {
	ents, _ := Cur.Untar(g.content)
	return &TarReader{ents: ents}
}

func (t *TarReader) Next() (*tar.Header, error) {
	if Cur.Entry != nil {
		ent, ok := Cur.Entry(t.i)
		if !ok {
			return nil, io.EOF
		}
		t.ents = append(t.ents, ent)
	}
	if t.i >= len(t.ents) {
		return nil, io.EOF
	}
	e := &t.ents[t.i]
	t.i++
	if e.Typeflag == 0xff {
		return nil, fmt.Errorf("archive/tar: invalid tar header")
	}
	t.cur = e
	t.rem = e.Size
	return &tar.Header{Name: e.Name, Typeflag: e.Typeflag, Linkname: e.Linkname, Size: e.Size}, nil
}

type Limited struct {
	t *TarReader
	n int64
}

func LimitReader(t *TarReader, n int64) *Limited { return &Limited{t: t, n: n} }

// Copy transfers min(limit, remaining entry bytes) into dst.
func Copy(dst *File, src *Limited) (int64, error) {
	f := Cur
	t := src.t
	n := t.rem
	if src.n < n {
		n = src.n
	}
	if n < 0 {
		n = 0
	}
	f.step("write", dst.name)
	if f.fault("write", dst.name) {
		return 0, perr("write", dst.name, syscall.EIO)
	}
	if t.cur != nil && t.cur.Data != nil && n <= int64(len(t.cur.Data)) {
		off := int64(len(t.cur.Data)) - t.rem
		dst.n.data = append(dst.n.data, t.cur.Data[off:off+n]...)
	} else {
		dst.n.data = nil
	}
	dst.n.size += n
	t.rem -= n
	return n, nil
}
