package main

import (
	"bufio"
	"bytes"
	"crypto/sha256"
	"encoding/json"
	"fmt"
	"os"
	"os/exec"
	"path/filepath"
	"regexp"
	"sort"
	"strings"
	"sync"
	"time"

	"verif/engine/gosym"
)

type Check struct {
	Prop    string
	Tier    string
	Seed    int
	Verbose bool
	Workers int
	Start   time.Time
}

type harnessRun struct {
	def       HarnessDef
	tc        TierCfg
	ex        *gosym.Explorer
	missing   []string // cover labels never reached
	replays   []*replayCase
	err       string
	validated int
	mismatch  []string
	otherProp map[string]int
}

type replayCase struct {
	reruns int // additional native runs made because the first disagreed with the engine
	path    string
	res     *gosym.PathResult
	purpose string // "violation" | "validate"
	native  *nativeResult
}

type nativeResult struct {
	File     string   `json:"file"`
	Harness  string   `json:"harness"`
	Kind     string   `json:"kind"`
	Label    string   `json:"label"`
	Labels   []string `json:"labels"`
	Msg      string   `json:"msg"`
	Observes []string `json:"observes"`
	Covers   []string `json:"covers"`
	Missing  []string `json:"missing"`
}

func (n *nativeResult) labels() []string {
	if len(n.Labels) > 0 {
		return n.Labels
	}
	if n.Label != "" {
		return []string{n.Label}
	}
	return nil
}

// labelOf returns the first failed oracle of a path that belongs to prop ("" if none).
func labelOf(h *HarnessDef, labels []string, prop string) string {
	for _, l := range labels {
		if h.labelIs(l, prop) {
			return l
		}
	}
	return ""
}

func resLabels(r *gosym.PathResult) []string {
	if len(r.Labels) > 0 {
		return r.Labels
	}
	if r.Label != "" {
		return []string{r.Label}
	}
	return nil
}

type knownFinding struct {
	prop, sig, text string
}

func loadKnown() (known []knownFinding, fixed []string) {
	f, err := os.Open(filepath.Join(verifDir, "known_findings.txt"))
	if err != nil {
		return nil, nil
	}
	defer f.Close()
	sc := bufio.NewScanner(f)
	for sc.Scan() {
		line := strings.TrimSpace(sc.Text())
		switch {
		case strings.HasPrefix(line, "known:"):
			rest := strings.TrimSpace(line[len("known:"):])
			fs := strings.Fields(rest)
			var kf knownFinding
			var text []string
			for _, w := range fs {
				switch {
				case strings.HasPrefix(w, "property=") && kf.prop == "":
					kf.prop = w[len("property="):]
				case strings.HasPrefix(w, "sig=") && kf.sig == "":
					kf.sig = w[len("sig="):]
				default:
					text = append(text, w)
				}
			}
			kf.text = strings.Join(text, " ")
			known = append(known, kf)
		case strings.HasPrefix(line, "fixed:"):
			fixed = append(fixed, line)
		}
	}
	return
}

// signature identifies a counterexample: harness / assertion label / failing function.
func signature(h string, r *gosym.PathResult) string {
	site := r.Site
	if k := strings.Index(site, "@"); k >= 0 {
		site = site[:k]
	}
	site = strings.ReplaceAll(site, " ", "")
	return h + "/" + r.Label + "/" + site
}

func (c *Check) logf(format string, a ...any) {
	if c.Verbose {
		fmt.Fprintf(os.Stderr, format+"\n", a...)
	}
}

func (c *Check) Run(sel []HarnessDef) int {
	overlay, patterns, err := c.buildOverlay(sel)
	if err != nil {
		fmt.Fprintln(os.Stderr, "harness files:", err)
		return 2
	}
	t0 := time.Now()
	ld, err := gosym.Load(repoDir, patterns, overlay, "verif")
	if err != nil {
		fmt.Fprintln(os.Stderr, "load:", err)
		c.writeBroken("load error: " + err.Error())
		return 2
	}
	loadS := time.Since(t0).Seconds()
	c.logf("loaded %d packages in %.1fs", ld.NumPkgs, loadS)

	var runs []*harnessRun
	broken := false
	for _, h := range sel {
		tc := h.Quick
		if c.Tier == "thorough" {
			tc = mergeTier(h.Quick, h.Thorough)
		}
		hr := &harnessRun{def: h, tc: tc, otherProp: map[string]int{}}
		runs = append(runs, hr)
		pkg := ld.Pkgs[module+"/"+h.Pkg]
		if pkg == nil {
			hr.err = "package not loaded: " + h.Pkg
			broken = true
			continue
		}
		fn := pkg.Func(h.Entry)
		if fn == nil {
			hr.err = "entry function not found: " + h.Entry
			broken = true
			continue
		}
		cfg := gosym.DefaultConfig()
		cfg.Params = tc.Params
		cfg.Delays = tc.Delays
		if tc.Unwind > 0 {
			cfg.Unwind = tc.Unwind
		}
		if tc.MaxPaths > 0 {
			cfg.MaxPaths = tc.MaxPaths
		}
		if tc.MaxSteps > 0 {
			cfg.MaxSteps = tc.MaxSteps
		}
		if tc.MaxDepth > 0 {
			cfg.MaxDepth = tc.MaxDepth
		}
		if tc.ConcCap > 0 {
			cfg.ConcCap = tc.ConcCap
		}
		if tc.BudgetS > 0 {
			cfg.TimeBudget = time.Duration(tc.BudgetS) * time.Second
		}
		if c.Workers > 0 {
			cfg.Workers = c.Workers
		}
		cfg.SecondCheck = tc.Second
		cfg.Solver = tc.Solver
		if tc.SolverMs > 0 {
			cfg.SolverMs = tc.SolverMs
		}
		cfg.NoopPkgs = append(append([]string{}, gosym.DefaultNoop...), h.Noop...)
		cfg.Stubs = h.Stubs
		if len(h.NoopFuncs) > 0 {
			cfg.NoopFuncs = map[string]bool{}
			for _, f := range h.NoopFuncs {
				cfg.NoopFuncs[f] = true
			}
		}
		cfg.Summaries = h.Summaries
		cfg.NoFastPath = tc.NoFastPath || os.Getenv("VERIF_NO_FASTPATH") != ""
		ex := &gosym.Explorer{Prog: ld.Prog, Cfg: cfg, H: &gosym.Harness{Name: h.Name, Pkg: pkg, Entry: fn}}
		hr.ex = ex
		ex.Run()
		st := ex.Stats
		c.logf("%s: paths=%d ok=%d dropped=%d viol=%d unsupported=%d budget=%d engine=%d hang=%d solver=%d queries=%d (sat %d unsat %d unk %d err %d) solver=%.1fs wall=%.1fs truncated=%v",
			h.Name, st.Paths, st.Completed, st.Dropped, st.Violations, st.Unsupported, st.Budget, st.EngineErr, st.Hang, st.SolverInc,
			st.Queries, st.Sat, st.Unsat, st.Unknown, st.SolverErr, st.SolverTime.Seconds(), st.Wall.Seconds(), st.Truncated)
		if c.Verbose {
			shown := map[string]int{}
			for _, r := range ex.Results {
				if r.Kind == "ok" {
					continue
				}
				key := r.Kind + "|" + r.Label + "|" + r.Msg
				shown[key]++
				if shown[key] <= 12 {
					fmt.Fprintf(os.Stderr, "  %s label=%s msg=%s site=%s\n    stack=%s\n    model=%v\n    trace=%v\n", r.Kind, r.Label, r.Msg, r.Site, firstLines(r.Stack, 30), r.Model, r.Trace)
				}
			}
		}
		for _, lbl := range h.Covers {
			if st.Covers[lbl] == 0 {
				hr.missing = append(hr.missing, lbl)
			}
		}
	}
	if broken {
		for _, hr := range runs {
			if hr.err != "" {
				fmt.Fprintf(os.Stderr, "BROKEN %s: %s\n", hr.def.Name, hr.err)
			}
		}
		c.writeBroken("harness setup error")
		return 2
	}

	// native replay: violations + validation samples
	c.prepareReplays(runs)
	if err := c.runNativeReplays(runs, overlay); err != nil {
		fmt.Fprintln(os.Stderr, "native replay:", err)
	}
	return c.verdict(runs, ld, loadS)
}

func firstLines(s string, n int) string {
	lines := strings.Split(s, "\n")
	if len(lines) > n {
		lines = lines[:n]
	}
	return strings.Join(lines, "\n    ")
}

func mergeTier(q, t TierCfg) TierCfg {
	out := q
	if t.Params != nil {
		out.Params = map[string]int{}
		for k, v := range q.Params {
			out.Params[k] = v
		}
		for k, v := range t.Params {
			out.Params[k] = v
		}
	}
	if t.Delays != 0 {
		out.Delays = t.Delays
	}
	if t.Unwind != 0 {
		out.Unwind = t.Unwind
	}
	if t.MaxPaths != 0 {
		out.MaxPaths = t.MaxPaths
	}
	if t.MaxSteps != 0 {
		out.MaxSteps = t.MaxSteps
	}
	if t.MaxDepth != 0 {
		out.MaxDepth = t.MaxDepth
	}
	if t.ConcCap != 0 {
		out.ConcCap = t.ConcCap
	}
	if t.BudgetS != 0 {
		out.BudgetS = t.BudgetS
	}
	if t.Second != nil {
		out.Second = t.Second
	}
	if t.Solver != "" {
		out.Solver = t.Solver
	}
	if t.SolverMs != 0 {
		out.SolverMs = t.SolverMs
	}
	if t.NoFastPath {
		out.NoFastPath = true
	}
	return out
}

func containsStr(xs []string, x string) bool {
	for _, y := range xs {
		if y == x {
			return true
		}
	}
	return false
}

func packageName(src []byte) string {
	for _, line := range strings.Split(string(src), "\n") {
		line = strings.TrimSpace(line)
		if strings.HasPrefix(line, "package ") {
			return strings.Fields(line)[1]
		}
	}
	return ""
}

type replayFile struct {
	Harness string            `json:"harness"`
	Entry   string            `json:"entry"`
	Model   map[string]string `json:"model"`
	Params  map[string]int    `json:"params"`
	Expect  struct {
		Kind  string `json:"kind"`
		Label string `json:"label"`
		Site  string `json:"site"`
		Msg   string `json:"msg"`
	} `json:"expect"`
	Trace    []gosym.Decision `json:"trace"`
	Observes []string         `json:"observes"`
	Property string           `json:"property"`
}

func (c *Check) prepareReplays(runs []*harnessRun) {
	dir := filepath.Join(outDir, "replays", c.Prop)
	os.MkdirAll(dir, 0o755)
	for _, hr := range runs {
		if hr.def.NoReplay {
			continue
		}
		// distinct violation signatures (up to 6 each harness)
		seen := map[string]int{}
		var oks []*gosym.PathResult
		nBudget := 0
		for _, r := range hr.ex.Results {
			switch r.Kind {
			case "violation":
				lbl := labelOf(&hr.def, resLabels(r), c.Prop)
				if lbl == "" {
					hr.otherProp[hr.def.labelProp(r.Label)]++
					continue
				}
				if lbl != r.Label {
					// report this path under the oracle that belongs to the property checked
					cp := *r
					cp.Label = lbl
					cp.Msg = "assertion failed: " + lbl + " (first failing oracle on the path: " + r.Label + ")"
					r = &cp
				}
				sig := signature(hr.def.Name, r)
				seen[sig]++
				if seen[sig] <= 2 && len(seen) <= 8 {
					hr.replays = append(hr.replays, &replayCase{res: r, purpose: "violation"})
				}
			case "budget":
				// a path that exceeded a loop/step bound: if the real build does not
				// finish on the same inputs either, it is a hang of the code under test
				if hr.def.labelIs("hang", c.Prop) && nBudget < 2 {
					nBudget++
					cp := *r
					cp.Kind, cp.Label = "violation", "hang"
					cp.Msg = "engine bound exceeded (" + r.Label + " " + r.Msg + "); native run must not finish either"
					hr.replays = append(hr.replays, &replayCase{res: &cp, purpose: "violation"})
				}
			case "ok":
				if r.Model != nil || len(r.Observes) > 0 {
					oks = append(oks, r)
				}
			}
		}
		// translator validation: first 3 + 3 chosen by seed
		pick := map[int]bool{}
		for k := 0; k < len(oks) && k < 3; k++ {
			pick[k] = true
		}
		if nstr := os.Getenv("VERIF_VALIDATE_N"); nstr != "" && len(oks) > 0 {
			// development aid: N more pseudo-random samples
			var n int
			fmt.Sscan(nstr, &n)
			x := uint64(c.Seed)*2862933555777941757 + 3037000493
			for k := 0; k < n; k++ {
				x = x*6364136223846793005 + 1442695040888963407
				pick[int((x>>33)%uint64(len(oks)))] = true
			}
		}
		if os.Getenv("VERIF_VALIDATE_ALL") != "" {
			// development aid: replay every completed path natively
			for k := range oks {
				pick[k] = true
			}
		}
		if len(oks) > 3 {
			x := uint64(c.Seed)*6364136223846793005 + 1442695040888963407
			for k := 0; k < 3; k++ {
				x = x*6364136223846793005 + 1442695040888963407
				pick[int((x>>33)%uint64(len(oks)))] = true
			}
		}
		idxs := make([]int, 0, len(pick))
		for k := range pick {
			idxs = append(idxs, k)
		}
		sort.Ints(idxs)
		for _, k := range idxs {
			hr.replays = append(hr.replays, &replayCase{res: oks[k], purpose: "validate"})
		}
		for _, rc := range hr.replays {
			var rf replayFile
			rf.Harness = hr.def.Name
			rf.Entry = hr.def.Entry
			rf.Property = c.Prop
			rf.Model = rc.res.Model
			if rf.Model == nil {
				rf.Model = map[string]string{}
			}
			rf.Params = hr.tc.Params
			rf.Expect.Kind = rc.res.Kind
			rf.Expect.Label = rc.res.Label
			rf.Expect.Site = rc.res.Site
			rf.Expect.Msg = rc.res.Msg
			rf.Trace = rc.res.Trace
			rf.Observes = rc.res.Observes
			data, _ := json.MarshalIndent(rf, "", " ")
			sum := sha256.Sum256(data)
			name := fmt.Sprintf("%s-%s-%x.json", hr.def.Name, rc.purpose, sum[:6])
			rc.path = filepath.Join(dir, name)
			os.WriteFile(rc.path, data, 0o644)
		}
	}
}

// runNativeReplays executes the replay files with `go test -overlay` against the real build.
func (c *Check) runNativeReplays(runs []*harnessRun, overlay map[string][]byte) error {
	byPkg := map[string][]*harnessRun{}
	for _, hr := range runs {
		if len(hr.replays) > 0 {
			byPkg[hr.def.Pkg] = append(byPkg[hr.def.Pkg], hr)
		}
	}
	if len(byPkg) == 0 {
		return nil
	}
	tmp, err := os.MkdirTemp("", "verif-replay-")
	if err != nil {
		return err
	}
	defer os.RemoveAll(tmp)
	// materialise overlay files
	ov := struct{ Replace map[string]string }{Replace: map[string]string{}}
	n := 0
	for virt, data := range overlay {
		n++
		real := filepath.Join(tmp, fmt.Sprintf("ov%d_%s", n, filepath.Base(virt)))
		if err := os.WriteFile(real, data, 0o644); err != nil {
			return err
		}
		ov.Replace[virt] = real
	}
	testTmpl, err := os.ReadFile(filepath.Join(verifDir, "harness", "rt_test.go.tmpl"))
	if err != nil {
		return err
	}
	for pkg := range byPkg {
		name := packageName(overlay[filepath.Join(repoDir, pkg, "zz_verif_rt.go")])
		n++
		real := filepath.Join(tmp, fmt.Sprintf("ov%d_replay_test.go", n))
		os.WriteFile(real, bytes.ReplaceAll(testTmpl, []byte("PKGNAME"), []byte(name)), 0o644)
		ov.Replace[filepath.Join(repoDir, pkg, "zz_verif_replay_test.go")] = real
	}
	ovData, _ := json.Marshal(ov)
	ovPath := filepath.Join(tmp, "overlay.json")
	os.WriteFile(ovPath, ovData, 0o644)

	for pkg, hrs := range byPkg {
		tag := strings.ReplaceAll(pkg, "/", "_")
		bin := filepath.Join(tmp, tag+".test")
		cmd := exec.Command("go", "test", "-c", "-o", bin, "-tags=verif", "-vet=off", "-overlay", ovPath, "./"+pkg)
		cmd.Dir = repoDir
		cmd.Env = append(os.Environ(), "GOFLAGS=-mod=mod", "GOPROXY=off")
		t0 := time.Now()
		outp, err := cmd.CombinedOutput()
		if err != nil {
			for _, hr := range hrs {
				hr.mismatch = append(hr.mismatch, "native replay binary did not build: "+firstLines(string(outp), 15))
			}
			continue
		}
		var cases []*replayCase
		for _, hr := range hrs {
			cases = append(cases, hr.replays...)
		}
		// one process per replay file: a crash or hang of the real code only affects that replay
		sem := make(chan struct{}, 8)
		var wg sync.WaitGroup
		runOne := func(k int, rc *replayCase, attempt int) *nativeResult {
				list := filepath.Join(tmp, fmt.Sprintf("list-%s-%d-%d", tag, k, attempt))
				out := filepath.Join(tmp, fmt.Sprintf("out-%s-%d-%d", tag, k, attempt))
				os.WriteFile(list, []byte(rc.path), 0o644)
				tmo := "60s"
				if os.Getenv("VERIF_REPLAY_DEBUG") != "" {
					tmo = "8s"
				}
				run := exec.Command(bin, "-test.run", "^TestVerifReplay$", "-test.timeout", tmo)
				run.Dir = filepath.Join(repoDir, pkg)
				run.Env = append(os.Environ(), "VERIF_REPLAY_LIST="+list, "VERIF_REPLAY_OUT="+out)
				ro, rerr := run.CombinedOutput()
				if os.Getenv("VERIF_REPLAY_DEBUG") != "" && rerr != nil {
					os.WriteFile("/tmp/verif-replay-debug.txt", ro, 0o644)
				}
				var nr *nativeResult
				if data, e := os.ReadFile(out); e == nil {
					for _, line := range bytes.Split(data, []byte("\n")) {
						if len(bytes.TrimSpace(line)) == 0 {
							continue
						}
						var x nativeResult
						if json.Unmarshal(line, &x) == nil {
							nr = &x
						}
					}
				}
				if nr == nil || rerr != nil {
					// the process died: an assertion may have been reported before it did
					label := ""
					var all []string
					for _, line := range strings.Split(string(ro), "\n") {
						if strings.HasPrefix(line, "VERIF-VIOLATION ") {
							l := strings.TrimSpace(strings.TrimPrefix(line, "VERIF-VIOLATION "))
							if label == "" {
								label = l
							}
							all = append(all, l)
						}
					}
					if label != "" {
						nr = &nativeResult{File: rc.path, Kind: "violation", Label: label, Labels: all, Msg: "process ended after the assertion failed"}
					} else if nr == nil {
						nr = &nativeResult{File: rc.path, Kind: "crash", Msg: firstLines(string(ro), 12)}
					}
				}
				return nr
		}
		for k, rc := range cases {
			wg.Add(1)
			sem <- struct{}{}
			go func(k int, rc *replayCase) {
				defer wg.Done()
				defer func() { <-sem }()
				rc.native = runOne(k, rc, 0)
			}(k, rc)
		}
		wg.Wait()
		// Real time is part of a native run of a concurrent scenario. A single run
		// that disagrees with the engine is repeated (alone, not in parallel) up to
		// twice: a validation sample counts as validated if any run agrees, and a
		// counterexample counts as confirmed if any run reproduces it.
		for k, rc := range cases {
			agrees := func(nr *nativeResult) bool {
				if nr == nil {
					return false
				}
				if rc.purpose == "validate" {
					return nr.Kind == "ok" && sameObs(nr.Observes, rc.res.Observes)
				}
				return (nr.Kind == "violation" && containsStr(nr.labels(), rc.res.Label)) || (nr.Kind == "crash" && (rc.res.Label == "panic" || rc.res.Label == "hang"))
			}
			if agrees(rc.native) {
				continue
			}
			for attempt := 1; attempt <= 2; attempt++ {
				nr := runOne(k, rc, attempt)
				rc.reruns++
				if agrees(nr) {
					rc.native = nr
					break
				}
			}
		}
		c.logf("native replay %s: %d files in %.1fs", pkg, len(cases), time.Since(t0).Seconds())
	}
	return nil
}

// buildOverlay collects the harness files and the runtime for the packages of sel.
func (c *Check) buildOverlay(sel []HarnessDef) (map[string][]byte, []string, error) {
	// overlay: harness files + runtime, per package
	overlay := map[string][]byte{}
	pkgSet := map[string]bool{}
	rt, err := os.ReadFile(filepath.Join(verifDir, "harness", "rt.go.tmpl"))
	if err != nil {
		return nil, nil, err
	}
	addPkgFiles := func(pkg string, withRT bool) error {
		if pkgSet[pkg] {
			return nil
		}
		pkgSet[pkg] = true
		dir := filepath.Join(verifDir, "harness", pkg)
		ents, err := os.ReadDir(dir)
		if err != nil {
			return err
		}
		pkgName := ""
		for _, e := range ents {
			if !strings.HasSuffix(e.Name(), ".go") {
				continue
			}
			data, err := os.ReadFile(filepath.Join(dir, e.Name()))
			if err != nil {
				return err
			}
			if pkgName == "" {
				pkgName = packageName(data)
			}
			overlay[filepath.Join(repoDir, pkg, "zz_verif_"+e.Name())] = data
		}
		if withRT && pkgName != "" {
			overlay[filepath.Join(repoDir, pkg, "zz_verif_rt.go")] = bytes.ReplaceAll(rt, []byte("PKGNAME"), []byte(pkgName))
		}
		return nil
	}
	var patterns []string
	for _, h := range sel {
		if !pkgSet[h.Pkg] {
			patterns = append(patterns, "./"+h.Pkg)
		}
		if err := addPkgFiles(h.Pkg, true); err != nil {
			return nil, nil, err
		}
		for _, x := range h.Extra {
			data, err := os.ReadFile(filepath.Join(verifDir, "harness", x.Pkg, x.File))
			if err != nil {
				return nil, nil, err
			}
			overlay[filepath.Join(repoDir, x.Pkg, "zz_verif_"+filepath.Base(x.File))] = data
		}
	}
	for _, h := range sel {
		if h.Rewrite == nil {
			continue
		}
		for _, rel := range h.Rewrite.Files {
			virt := filepath.Join(repoDir, rel)
			if _, done := overlay[virt]; done {
				continue
			}
			src, err := os.ReadFile(virt)
			if err != nil {
				return nil, nil, err
			}
			out, err := applyRewrite(src, h.Rewrite)
			if err != nil {
				return nil, nil, fmt.Errorf("rewrite %s: %w", rel, err)
			}
			overlay[virt] = out
		}
	}
	return overlay, patterns, nil
}

// applyRewrite inserts the environment seams into one production source file.
func applyRewrite(src []byte, rw *RewriteDef) ([]byte, error) {
	text := string(src)
	for _, rule := range rw.Rules {
		re, err := regexp.Compile(rule.Re)
		if err != nil {
			return nil, err
		}
		text = re.ReplaceAllStringFunc(text, func(m string) string {
			sub := re.FindStringSubmatch(m)
			if len(sub) > 1 {
				for _, ex := range rule.Except {
					if sub[1] == ex {
						return m
					}
				}
			}
			return re.ReplaceAllString(m, rule.To)
		})
	}
	// the import goes on the package clause's line so that line numbers are kept
	pk := regexp.MustCompile(`(?m)^package (\w+)[ \t]*$`)
	loc := pk.FindStringIndex(text)
	if loc == nil {
		return nil, fmt.Errorf("no package clause")
	}
	text = text[:loc[1]] + "; import " + rw.Import + text[loc[1]:]
	var keep []string
	for _, frag := range sortedKeys(rw.Keep) {
		if strings.Contains(text, "\""+frag+"\"") {
			keep = append(keep, "var _ = "+rw.Keep[frag])
		}
	}
	alias := strings.Fields(rw.Import)[0]
	if !strings.Contains(text[loc[1]+len(rw.Import)+9:], alias+".") {
		keep = append(keep, "var _ = "+alias+".Cur")
	}
	return []byte(text + "\n" + strings.Join(keep, "\n") + "\n"), nil
}

type evidence struct {
	PropertyID  string         `json:"property_id"`
	Tier        string         `json:"tier"`
	Seed        int            `json:"seed"`
	Level       string         `json:"level"`
	Coverage    map[string]any `json:"coverage"`
	Assumptions []string       `json:"assumptions"`
	WallS       float64        `json:"wall_s"`
	Violations  int            `json:"violations"`
}

func (c *Check) writeBroken(msg string) {
	ev := evidence{PropertyID: c.Prop, Tier: c.Tier, Seed: c.Seed, Level: "other",
		Coverage: map[string]any{"explanation": "check did not run: " + msg, "evaluations": 0, "distinct_nontrivial": 0},
		WallS:    time.Since(c.Start).Seconds()}
	c.writeEvidence(&ev)
}

func (c *Check) writeEvidence(ev *evidence) {
	dir := filepath.Join(outDir, "evidence")
	os.MkdirAll(dir, 0o755)
	data, _ := json.MarshalIndent(ev, "", " ")
	os.WriteFile(filepath.Join(dir, c.Prop+".json"), append(data, '\n'), 0o644)
}

func (c *Check) verdict(runs []*harnessRun, ld *gosym.Loaded, loadS float64) int {
	known, _ := loadKnown()
	exit := 0
	var violLines, knownLines, notes []string
	knownSeen := map[string]bool{}
	states, transitions, validated := 0, 0, 0
	queries := map[string]int{"sat": 0, "unsat": 0, "unknown": 0, "error": 0}
	inconclusive := map[string]int{"unwind_or_budget": 0, "unsupported": 0, "solver": 0, "engine_error": 0, "truncated": 0}
	unconfirmed := 0
	solverS := 0.0
	funcs := map[string]int{}
	var samples []any
	var bounds []string
	var harnessInfo []any
	violations := 0
	secondAgree, secondDis := 0, 0

	for _, hr := range runs {
		st := hr.ex.Stats
		states += st.Completed
		transitions += st.Transitions
		queries["sat"] += st.Sat
		queries["unsat"] += st.Unsat
		queries["unknown"] += st.Unknown
		queries["error"] += st.SolverErr
		inconclusive["unwind_or_budget"] += st.Budget
		inconclusive["unsupported"] += st.Unsupported
		inconclusive["solver"] += st.SolverInc
		inconclusive["engine_error"] += st.EngineErr
		if st.Truncated {
			inconclusive["truncated"]++
		}
		secondAgree += st.SecondAgree
		secondDis += st.SecondDis
		solverS += st.SolverTime.Seconds()
		for f, n := range st.Funcs {
			funcs[f] += n
		}
		bounds = append(bounds, fmt.Sprintf("%s: %s params=%v delays=%d", hr.def.Name, hr.def.Bounds, hr.tc.Params, hr.tc.Delays))
		hinfo := map[string]any{"harness": hr.def.Name, "paths": st.Paths, "completed": st.Completed, "dropped_infeasible": st.Dropped,
			"violating_paths": st.Violations + st.Hang, "wall_s": st.Wall.Seconds(), "covers": st.Covers, "outside_claim": hr.def.Outside}
		nrer := 0
		for _, rc := range hr.replays {
			nrer += rc.reruns
		}
		hinfo["native_reruns"] = nrer
		harnessInfo = append(harnessInfo, hinfo)

		for p, n := range hr.otherProp {
			notes = append(notes, fmt.Sprintf("NOTE %s: %d path(s) ended in an assertion that belongs to property %s (reported by that property's check)", hr.def.Name, n, p))
		}
		// vacuity
		if len(hr.missing) > 0 && hr.def.Expect != "violation" {
			notes = append(notes, fmt.Sprintf("BROKEN %s: cover labels never reached: %v", hr.def.Name, hr.missing))
			if exit == 0 {
				exit = 2
			}
		}
		if st.Completed == 0 && hr.def.Expect != "violation" {
			notes = append(notes, fmt.Sprintf("BROKEN %s: no path completed (vacuous)", hr.def.Name))
			if exit == 0 {
				exit = 2
			}
		}
		// reachability twin
		if hr.def.Expect == "violation" {
			if st.Violations == 0 {
				notes = append(notes, fmt.Sprintf("BROKEN %s: reachability witness did not fail (vacuous harness)", hr.def.Name))
				if exit == 0 {
					exit = 2
				}
			}
			continue
		}
		// inconclusive paths are reported, never success
		if st.Budget+st.Unsupported+st.SolverInc+st.EngineErr > 0 || st.Truncated {
			for _, r := range hr.ex.Results {
				if r.Kind == "unsupported" || r.Kind == "budget" || r.Kind == "engine_error" || r.Kind == "solver" {
					notes = append(notes, fmt.Sprintf("INCONCLUSIVE %s: %s %s %s", hr.def.Name, r.Kind, r.Label, r.Msg))
					break
				}
			}
			if st.Truncated {
				notes = append(notes, fmt.Sprintf("INCONCLUSIVE %s: path cap reached, exploration truncated after %d paths", hr.def.Name, st.Paths))
			}
			if exit == 0 {
				exit = 2
			}
		}
		// replays
		sigDone := map[string]bool{}
		for _, rc := range hr.replays {
			nr := rc.native
			switch rc.purpose {
			case "validate":
				if nr == nil {
					hr.mismatch = append(hr.mismatch, "no native result for "+rc.path)
					continue
				}
				if nl := labelOf(&hr.def, nr.labels(), c.Prop); nr.Kind == "violation" && nl != "" {
					// the real build violated an oracle on a model the engine considered fine
					// (possible under a different goroutine schedule): that is a confirmed violation
					sig := hr.def.Name + "/" + nl + "/native"
					isKnown := false
					for _, kf := range known {
						if kf.prop == c.Prop && sigMatch(kf.sig, sig) {
							isKnown = true
						}
					}
					if !isKnown && !sigDone[sig] {
						sigDone[sig] = true
						violations++
						violLines = append(violLines, fmt.Sprintf("VIOLATION property=%s replay=%s", c.Prop, rc.path))
						notes = append(notes, fmt.Sprintf("  %s: native run of a sampled model violated %s", hr.def.Name, nl))
					}
					continue
				}
				if nr.Kind == "violation" && nr.Label != "" {
					continue // belongs to another property
				}
				if nr.Kind != "ok" || !sameObs(nr.Observes, rc.res.Observes) {
					hr.mismatch = append(hr.mismatch, fmt.Sprintf("translator mismatch on %s: native kind=%s label=%s msg=%s obs=%v, engine obs=%v", rc.path, nr.Kind, nr.Label, nr.Msg, nr.Observes, rc.res.Observes))
				} else {
					validated++
					hr.validated++
				}
			case "violation":
				sig := signature(hr.def.Name, rc.res)
				if sigDone[sig] {
					continue
				}
				confirmed := nr != nil && ((nr.Kind == "violation" && containsStr(nr.labels(), rc.res.Label)) || (nr.Kind == "crash" && rc.res.Label == "panic") || (rc.res.Label == "hang" && nr.Kind == "crash"))
				if !confirmed {
					unconfirmed++
					got := "none"
					if nr != nil {
						got = nr.Kind + "/" + nr.Label + " " + nr.Msg
					}
					notes = append(notes, fmt.Sprintf("UNCONFIRMED %s: engine found %s (%s) but native replay gave %s; replay=%s", hr.def.Name, rc.res.Label, rc.res.Msg, got, rc.path))
					continue
				}
				sigDone[sig] = true
				isKnown := false
				for _, kf := range known {
					if kf.prop == c.Prop && sigMatch(kf.sig, sig) {
						isKnown = true
						if !knownSeen[kf.sig] {
							knownSeen[kf.sig] = true
							knownLines = append(knownLines, fmt.Sprintf("KNOWN-FINDING: property=%s %s (sig=%s replay=%s)", c.Prop, kf.text, kf.sig, rc.path))
						}
					}
				}
				if !isKnown {
					violations++
					violLines = append(violLines, fmt.Sprintf("VIOLATION property=%s replay=%s", c.Prop, rc.path))
					notes = append(notes, fmt.Sprintf("  %s: %s at %s (sig=%s) model=%v", hr.def.Name, rc.res.Msg, rc.res.Site, sig, rc.res.Model))
				}
			}
		}
		if len(hr.mismatch) > 0 {
			for _, m := range hr.mismatch {
				notes = append(notes, "BROKEN "+hr.def.Name+": "+m)
			}
			if exit == 0 {
				exit = 2
			}
		}
		// samples
		ns := 0
		for _, r := range hr.ex.Results {
			if r.Kind == "ok" && ns < 2 {
				ns++
				samples = append(samples, map[string]any{"harness": hr.def.Name, "decisions": traceString(r.Trace), "model": r.Model, "observes": r.Observes})
			}
		}
	}
	if violations > 0 {
		exit = 1
	}
	if len(samples) == 0 {
		samples = append(samples, "no completed path")
	}
	// functions encoded: real (non-harness) functions executed
	var fnames []string
	for f := range funcs {
		if strings.Contains(f, "verif") || strings.Contains(f, "Verif") {
			continue
		}
		if strings.Contains(f, "conduitio/conduit") || strings.Contains(f, "conduit-commons") || strings.Contains(f, "tomb") || strings.HasPrefix(f, "net.") || strings.HasPrefix(f, "(net.") || strings.HasPrefix(f, "(*net.") {
			fnames = append(fnames, f)
		}
	}
	sort.Strings(fnames)
	if len(fnames) > 150 {
		fnames = fnames[:150]
	}
	nq := queries["sat"] + queries["unsat"] + queries["unknown"] + queries["error"]
	ev := evidence{PropertyID: c.Prop, Tier: c.Tier, Seed: c.Seed, Level: "model_checking", WallS: time.Since(c.Start).Seconds(), Violations: violations}
	ev.Coverage = map[string]any{
		"states":                        max(states, 0),
		"transitions":                   transitions,
		"traces_validated_against_impl": validated,
		"samples":                       samples,
		"evaluations":                   states,
		"distinct_nontrivial":           states,
		"rule":                          "states = feasible symbolic paths of the real functions completed under the harness (each decided for all values of its symbolic variables by the SMT solver); transitions = branch/scheduling/concretisation decisions taken; a path is distinct by its decision sequence",
		"functions_encoded":             fnames,
		"bounds":                        bounds,
		"queries":                       queries,
		"queries_total":                 nq,
		"solver_s":                      solverS,
		"solver":                        "z3 4.8.12 (one `z3 -in` per worker, check-sat-assuming)",
		"inconclusive":                  inconclusive,
		"unconfirmed":                   unconfirmed,
		"known_findings":                knownLines,
		"second_solver":                 map[string]int{"agree": secondAgree, "disagree": secondDis},
		"harnesses":                     harnessInfo,
		"packages_loaded":               ld.NumPkgs,
		"load_s":                        loadS,
		"trusted_base":                  trustedBase,
		"notes":                         notes,
	}
	if states == 0 {
		ev.Coverage["states"] = 0
		ev.Level = "other"
		ev.Coverage["explanation"] = "no path completed; see notes"
	}
	ev.Assumptions = []string{
		"symbolic execution of go/ssa built from /repo's working tree on this run; bounds as listed under coverage.bounds",
		"environment = harness fakes and the engine's intrinsics (coverage.trusted_base); logging/metrics are no-ops",
		"goroutines interleave only at synchronisation operations (data-race freedom assumed); schedules explored within the stated delay bound",
		"map iteration in insertion order only",
	}
	c.writeEvidence(&ev)
	for _, l := range knownLines {
		fmt.Println(l)
	}
	for _, l := range notes {
		fmt.Println(l)
	}
	for _, l := range violLines {
		fmt.Println(l)
	}
	fmt.Printf("property=%s tier=%s exit=%d states=%d transitions=%d validated=%d queries=%d solver_s=%.1f wall_s=%.1f\n",
		c.Prop, c.Tier, exit, states, transitions, validated, nq, solverS, time.Since(c.Start).Seconds())
	return exit
}

func sigMatch(pattern, sig string) bool {
	if pattern == sig {
		return true
	}
	if strings.HasSuffix(pattern, "*") {
		return strings.HasPrefix(sig, strings.TrimSuffix(pattern, "*"))
	}
	return false
}

func sameObs(a, b []string) bool {
	if len(a) != len(b) {
		return false
	}
	for k := range a {
		if a[k] != b[k] {
			return false
		}
	}
	return true
}

func traceString(t []gosym.Decision) string {
	var sb strings.Builder
	for k, d := range t {
		if k > 0 {
			sb.WriteByte(' ')
		}
		if k > 60 {
			sb.WriteString("…")
			break
		}
		sb.WriteString(d.String())
	}
	return sb.String()
}

var trustedBase = []string{
	"golang.org/x/tools go/packages + go/ssa v0.29.0 (SSA construction from /repo sources)",
	"gosym interpreter (derived from x/tools go/ssa/interp): value model, bit-vector/FP encoding of Go scalar semantics",
	"intrinsics: sync (Mutex/RWMutex/WaitGroup/Cond/Pool/Once via source), sync/atomic, channels/select, timers and virtual clock, errors.Is/As, fmt.Errorf/Sprintf (message opaque, %w shape kept)",
	"no-op stubs: pkg/foundation/log, zerolog, pkg/foundation/metrics, prometheus, inspector",
	"harness fakes at interface seams (listed in DESIGN.md per property)",
	"z3 4.8.12; native replay through `go test -overlay` for every reported violation and for sampled paths (translator validation)",
}

// runReplay re-runs one replay file natively (n times) and prints how each run ended.
func runReplay(path string, n int) int {
	data, err := os.ReadFile(path)
	if err != nil {
		fmt.Fprintln(os.Stderr, err)
		return 2
	}
	var rf replayFile
	if err := json.Unmarshal(data, &rf); err != nil {
		fmt.Fprintln(os.Stderr, err)
		return 2
	}
	idx, err := loadIndex()
	if err != nil {
		fmt.Fprintln(os.Stderr, err)
		return 2
	}
	var def *HarnessDef
	for k := range idx.Harnesses {
		if idx.Harnesses[k].Name == rf.Harness {
			def = &idx.Harnesses[k]
		}
	}
	if def == nil {
		fmt.Fprintln(os.Stderr, "unknown harness", rf.Harness)
		return 2
	}
	ck := &Check{Prop: rf.Property, Tier: "quick", Verbose: true, Start: time.Now()}
	overlay, _, err := ck.buildOverlay([]HarnessDef{*def})
	if err != nil {
		fmt.Fprintln(os.Stderr, err)
		return 2
	}
	exit := 0
	for k := 0; k < n; k++ {
		hr := &harnessRun{def: *def, otherProp: map[string]int{}}
		hr.replays = []*replayCase{{path: path, purpose: "violation", res: &gosym.PathResult{Kind: rf.Expect.Kind, Label: rf.Expect.Label}}}
		if err := ck.runNativeReplays([]*harnessRun{hr}, overlay); err != nil {
			fmt.Fprintln(os.Stderr, err)
			return 2
		}
		nr := hr.replays[0].native
		if nr == nil {
			fmt.Println("run", k, "no result", hr.mismatch)
			exit = 2
			continue
		}
		fmt.Printf("run %d: kind=%s label=%s msg=%s observes=%v\n", k, nr.Kind, nr.Label, firstLines(nr.Msg, 3), nr.Observes)
		if nr.Kind == "violation" {
			exit = 1
		}
	}
	return exit
}
