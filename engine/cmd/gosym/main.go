// Command gosym runs the harnesses registered for a property through the
// symbolic interpreter, replays models natively, and writes the evidence file.
//
//	gosym check <property> quick|thorough
//	gosym run -harness <name> [-tier quick] [-v]        (development)
package main

import (
	"encoding/json"
	"flag"
	"fmt"
	"os"
	"path/filepath"
	"runtime/pprof"
	"sort"
	"strings"
	"time"

	"verif/engine/gosym"
)

const (
	verifDir = "/verif"
	module   = "github.com/conduitio/conduit"
)

// repoDir is the tree under check; outDir receives evidence and replay files.
// Both can be redirected (VERIF_REPO, VERIF_OUT) so that a seeded change can be
// checked in a scratch worktree without touching /repo or the committed evidence.
var (
	repoDir = envOr("VERIF_REPO", "/repo")
	outDir  = envOr("VERIF_OUT", verifDir)
)

func envOr(k, def string) string {
	if v := os.Getenv(k); v != "" {
		return v
	}
	return def
}

func main() {
	if pf := os.Getenv("GOSYM_CPUPROFILE"); pf != "" {
		f, err := os.Create(pf)
		if err == nil {
			pprof.StartCPUProfile(f)
		}
	}
	rc := realMain()
	pprof.StopCPUProfile()
	os.Exit(rc)
}

func realMain() int {
	if len(os.Args) < 2 {
		usage()
	}
	switch os.Args[1] {
	case "check":
		if len(os.Args) < 4 {
			usage()
		}
		return runCheck(os.Args[2], os.Args[3], "", false, 0)
	case "run":
		fs := flag.NewFlagSet("run", flag.ExitOnError)
		h := fs.String("harness", "", "harness name (comma separated)")
		tier := fs.String("tier", "quick", "tier")
		v := fs.Bool("v", false, "verbose")
		prop := fs.String("prop", "", "property id (all its harnesses)")
		workers := fs.Int("workers", 0, "override workers")
		fs.Parse(os.Args[2:])
		return runCheck(*prop, *tier, *h, *v, *workers)
	case "replay":
		if len(os.Args) < 3 {
			usage()
		}
		n := 1
		if len(os.Args) > 3 {
			fmt.Sscan(os.Args[3], &n)
		}
		return runReplay(os.Args[2], n)
	default:
		usage()
	}
	return 2
}

func usage() {
	fmt.Fprintln(os.Stderr, "usage: gosym check <property> quick|thorough | gosym run -harness <name> [-tier t] [-v]")
	os.Exit(2)
}

// TierCfg is the per-tier configuration of a harness.
type TierCfg struct {
	Params   map[string]int `json:"params"`
	Delays   int            `json:"delays"`
	Unwind   int            `json:"unwind"`
	MaxPaths int            `json:"max_paths"`
	MaxSteps int64          `json:"max_steps"`
	MaxDepth int            `json:"max_depth"`
	ConcCap  int            `json:"conc_cap"`
	BudgetS  int            `json:"budget_s"`
	Second   []string       `json:"second_solvers"`
	Solver   string         `json:"solver"`
	SolverMs int            `json:"solver_ms"`
	// NoFastPath sends every feasibility and assertion question to the SMT solver
	// instead of deciding single-variable conditions over declared finite domains.
	NoFastPath bool `json:"no_fastpath"`
}

type ExtraFile struct {
	Pkg  string `json:"pkg"`
	File string `json:"file"` // relative to /verif/harness/<pkg>/
}

type HarnessDef struct {
	Property   string   `json:"property"`
	Properties []string `json:"properties,omitempty"` // all properties whose oracle labels this harness carries
	PanicProp  string   `json:"panic_property,omitempty"` // property charged with panics/hangs (default: first)
	HangProps  []string `json:"hang_properties,omitempty"` // further properties for which a hang of this scenario is a violation
	Name     string            `json:"name"`
	Pkg      string            `json:"pkg"`   // relative to /repo
	Entry    string            `json:"entry"` // function name
	Extra    []ExtraFile       `json:"extra,omitempty"`
	Quick    TierCfg           `json:"quick"`
	Thorough TierCfg           `json:"thorough"`
	Covers   []string          `json:"covers"` // labels that must be reached (vacuity)
	Stubs    map[string]string `json:"stubs,omitempty"`
	Summaries map[string][]int `json:"summaries,omitempty"`
	Noop     []string          `json:"noop,omitempty"`
	NoopFuncs []string         `json:"noop_funcs,omitempty"`
	NoReplay bool              `json:"no_replay,omitempty"`
	Rewrite  *RewriteDef       `json:"rewrite,omitempty"`
	Expect   string            `json:"expect,omitempty"` // "violation" for reachability twins
	Bounds   string            `json:"bounds"`           // human-readable statement of the bound
	Outside  string            `json:"outside"`
}

// RewriteDef describes the environment seams the check inserts, textually, into
// production sources before they are loaded (engine) or compiled (native replay):
// every match of a rule's regex is replaced, except when its first group is
// listed in Except. The rewritten text is regenerated from /repo on every run.
type RewriteDef struct {
	Import string            `json:"import"` // import spec added to each rewritten file
	Files  []string          `json:"files"`  // relative to /repo
	Rules  []RewriteRule     `json:"rules"`
	Keep   map[string]string `json:"keep"` // import path fragment -> expression keeping the import used
}

type RewriteRule struct {
	Re     string   `json:"re"`
	To     string   `json:"to"`
	Except []string `json:"except,omitempty"`
}

type Index struct {
	Harnesses []HarnessDef `json:"harnesses"`
}

func (h *HarnessDef) props() []string {
	if len(h.Properties) > 0 {
		return h.Properties
	}
	return []string{h.Property}
}

func (h *HarnessDef) hasProp(p string) bool {
	for _, x := range h.props() {
		if x == p {
			return true
		}
	}
	return false
}

// labelProp maps an assertion label to the property it belongs to: labels are
// written "cNN-what"; "panic" and "hang" belong to the harness's panic property.
func (h *HarnessDef) labelProp(label string) string {
	if len(label) >= 4 && (label[0] == 'c' || label[0] == 'C') && label[3] == '-' {
		return "C" + label[1:3]
	}
	if h.PanicProp != "" {
		return h.PanicProp
	}
	return h.props()[0]
}

// labelIs says whether a failed oracle label counts for property prop.
func (h *HarnessDef) labelIs(label, prop string) bool {
	if h.labelProp(label) == prop {
		return true
	}
	if label == "hang" {
		for _, p := range h.HangProps {
			if p == prop {
				return true
			}
		}
	}
	return false
}

func loadIndex() (*Index, error) {
	data, err := os.ReadFile(filepath.Join(verifDir, "harness", "index.json"))
	if err != nil {
		return nil, err
	}
	var idx Index
	if err := json.Unmarshal(data, &idx); err != nil {
		return nil, err
	}
	return &idx, nil
}

func runCheck(prop, tier, only string, verbose bool, workers int) int {
	start := time.Now()
	idx, err := loadIndex()
	if err != nil {
		fmt.Fprintln(os.Stderr, "index:", err)
		return 2
	}
	var sel []HarnessDef
	onlySet := map[string]bool{}
	for _, n := range strings.Split(only, ",") {
		if n != "" {
			onlySet[n] = true
		}
	}
	for _, h := range idx.Harnesses {
		if len(onlySet) > 0 {
			if onlySet[h.Name] {
				sel = append(sel, h)
			}
			continue
		}
		if h.hasProp(prop) {
			sel = append(sel, h)
		}
	}
	if len(sel) == 0 {
		fmt.Fprintf(os.Stderr, "no harness for property %q / %q\n", prop, only)
		return 2
	}
	if prop == "" {
		prop = sel[0].props()[0]
	}
	seed := 0
	if s := os.Getenv("VERIF_SEED"); s != "" {
		fmt.Sscan(s, &seed)
	}
	ck := &Check{Prop: prop, Tier: tier, Seed: seed, Verbose: verbose, Workers: workers, Start: start}
	return ck.Run(sel)
}

// sortedKeys returns map keys sorted.
func sortedKeys[V any](m map[string]V) []string {
	ks := make([]string, 0, len(m))
	for k := range m {
		ks = append(ks, k)
	}
	sort.Strings(ks)
	return ks
}

var _ = gosym.DefaultConfig
