package gosym

// Path exploration: decision prefixes, forking by re-execution, per-path
// solver context, results.

import (
	"fmt"
	"os"
	"go/types"
	"sort"
	"strings"
	"sync"
	"time"

	"golang.org/x/tools/go/ssa"
)

// Decision is one nondeterministic choice taken on a path.
type Decision struct {
	Kind byte     `json:"k"`           // 'b' branch, 'c' concretize, 's' schedule, 'h' harness choice
	Val  uint64   `json:"v"`           // branch: 0/1; concretize: value bits; schedule/choice: index
	Excl []uint64 `json:"x,omitempty"` // concretize: values already explored by siblings (last decision of a prefix only)
	N    int      `json:"n,omitempty"` // number of alternatives (schedule/choice)
}

func (d Decision) String() string {
	if len(d.Excl) > 0 {
		return fmt.Sprintf("%c!%v", d.Kind, d.Excl)
	}
	return fmt.Sprintf("%c%d", d.Kind, d.Val)
}

// Config holds per-harness exploration parameters.
type Config struct {
	Unwind      int   // per-frame visits of one basic block
	MaxSteps    int64 // instructions per path
	MaxDepth    int   // decisions per path
	MaxPaths    int   // paths per harness
	Delays      int   // scheduler delay budget
	ConcCap     int   // max values per concretisation site
	SolverMs    int   // per-query timeout
	Workers     int
	NoopPkgs    []string // package path prefixes whose functions are absorbing no-ops
	NoopFuncs   map[string]bool
	Stubs       map[string]string // callee full name -> harness function name (same package as harness) replacing it
	TimeBudget  time.Duration
	SecondCheck []string // extra solvers re-discharging assertion queries (thorough)
	Trace       bool
	Solver      string // primary solver: z3 (default), z3-new, cvc5
	Params      map[string]int // tier bounds visible to the harness through verifParam
	Summaries   map[string][]int // pure callees explored separately and merged (value: result indices replaced by zero)
	NoFastPath  bool             // never decide by finite-domain evaluation: every feasibility and assertion question goes to the solver
}

func (c *Config) isNoop(path string) bool {
	for _, p := range c.NoopPkgs {
		if path == p || strings.HasPrefix(path, p+"/") {
			return true
		}
	}
	return false
}

func (c *Config) isNoopFunc(f *ssa.Function) bool {
	if f.Pkg != nil {
		if c.isNoop(f.Pkg.Pkg.Path()) {
			return true
		}
	} else if o := f.Object(); o != nil && o.Pkg() != nil {
		if c.isNoop(o.Pkg().Path()) {
			return true
		}
	} else if org := f.Origin(); org != nil && org.Pkg != nil {
		if c.isNoop(org.Pkg.Pkg.Path()) {
			return true
		}
	}
	if c.NoopFuncs != nil && c.NoopFuncs[f.String()] {
		return true
	}
	return false
}

var DefaultNoop = []string{
	"github.com/conduitio/conduit/pkg/foundation/log",
	"github.com/conduitio/conduit/pkg/foundation/metrics",
	"github.com/rs/zerolog",
	"github.com/prometheus/client_golang",
	"github.com/conduitio/conduit/pkg/inspector",
	"log/slog",
	"log",
	"go.opentelemetry.io/otel",
}

func DefaultConfig() Config {
	return Config{
		Unwind:   4096,
		MaxSteps: 5_000_000,
		MaxDepth: 20000,
		MaxPaths: 200_000,
		Delays:   0,
		ConcCap:  16,
		SolverMs: 20000,
		Workers:  16,
		NoopPkgs: DefaultNoop,
	}
}

// PathResult describes how one path ended.
type PathResult struct {
	Kind     string            `json:"kind"` // ok | dropped | violation | unsupported | engine_error | budget | hang | solver
	Label    string            `json:"label,omitempty"`
	Labels   []string          `json:"labels,omitempty"` // every oracle that failed on this path, in order
	Msg      string            `json:"msg,omitempty"`
	Site     string            `json:"site,omitempty"`
	Stack    string            `json:"stack,omitempty"`
	Model    map[string]string `json:"model,omitempty"` // variable -> "kind:value"
	Trace    []Decision        `json:"trace,omitempty"`
	Observes []string          `json:"observes,omitempty"`
	Covers   []string          `json:"covers,omitempty"`
	Steps    int64             `json:"steps,omitempty"`
	Queries  int               `json:"queries,omitempty"`
	Unknown  int               `json:"unknown,omitempty"`
}

// pathEnd unwinds the whole path.
type pathEnd struct{ res *PathResult }

// interpreter is the state of one path execution.
type interpreter struct {
	prog               *ssa.Program
	cfg                *Config
	h                  *Harness
	globals            map[*ssa.Global]*value
	pkgInit            map[*ssa.Package]int // 0 untouched, 1 running, 2 done
	runtimeErrorString types.Type
	pool               *termPool
	solver             *Solver
	pc                 []*Term
	prefix             []Decision
	soft               []softViol
	pos                int
	trace              []Decision
	pending            [][]Decision
	sched              *scheduler
	steps              int64
	depth              int
	panicSited         bool
	panicSite          string
	panicStack         string
	observes           []string
	obsTerms           [][]value
	covers             map[string]bool
	varCount           map[string]int
	varKinds           map[string]types.BasicKind
	unknowns           int
	queries            int
	funcs              map[*ssa.Function]int
	initMode           int
	poisoned           map[*ssa.Global]string
	intrinsics         map[*ssa.Function]externalFn
	assertsChecked     int
	secondDisagree     int
	extraSolvers       []*Solver
	asserts            []assertRec
	timers             map[*value]*timerState
	doms               map[*Term]*domain
	sub                *subExplore
	summaries          int
	summaryPaths       int
	fastDecisions      int
	uuidSeq            int
	fmtDepth           int
}

type assertRec struct {
	label string
	res   string
}

// Harness identifies an entry function.
type Harness struct {
	Name  string
	Pkg   *ssa.Package
	Entry *ssa.Function
}

// ---- decisions ----

func (i *interpreter) nextDecision() (Decision, bool) {
	if i.pos < len(i.prefix) {
		d := i.prefix[i.pos]
		i.pos++
		return d, true
	}
	return Decision{}, false
}

func (i *interpreter) record(d Decision) {
	i.trace = append(i.trace, d)
	if len(i.trace) > i.cfg.MaxDepth {
		panic(budgetPanic{"depth", fmt.Sprintf("decision depth %d exceeded", i.cfg.MaxDepth)})
	}
}

func (i *interpreter) pushAlt(d Decision) {
	alt := make([]Decision, len(i.trace)+1)
	copy(alt, i.trace)
	alt[len(i.trace)] = d
	i.pending = append(i.pending, alt)
}

func (i *interpreter) assertPC(t *Term) {
	i.pc = append(i.pc, t)
	i.domAssert(t)
	i.solver.Assert(t)
}

func (i *interpreter) check(t *Term, neg bool) Result {
	i.queries++
	if debugQueries && t != nil {
		fmt.Fprintf(os.Stderr, "QUERY neg=%v fv=%d %s\n", neg, len(t.freeVars()), t.String())
	}
	r := i.solver.Check(t, neg)
	if r == Unknown {
		i.unknowns++
	}
	return r
}

// branch decides a symbolic condition, forking if both sides are feasible.
func (i *interpreter) branch(t *Term) bool {
	if t.IsConst() {
		return t.val != 0
	}
	if i.sub != nil {
		return i.subBranch(t)
	}
	if d, ok := i.nextDecision(); ok {
		if d.Kind != 'b' || len(d.Excl) != 0 {
			panic(engineError{fmt.Sprintf("decision mismatch: expected branch, prefix has %v at %d", d, i.pos-1), ""})
		}
		i.trace = append(i.trace, d)
		if d.Val != 0 {
			i.assertPC(t)
			return true
		}
		i.assertPC(i.pool.Not(t))
		return false
	}
	var tFeas, fFeas bool
	if ct, cf, ok := i.domFeasible(t); ok {
		tFeas, fFeas = ct, cf
		i.fastDecisions++
	} else {
		rt := i.check(t, false)
		rf := i.check(t, true)
		tFeas = rt != Unsat
		fFeas = rf != Unsat
	}
	switch {
	case tFeas && fFeas:
		i.pushAlt(Decision{Kind: 'b', Val: 0})
		i.record(Decision{Kind: 'b', Val: 1})
		i.assertPC(t)
		return true
	case tFeas:
		i.record(Decision{Kind: 'b', Val: 1})
		i.assertPC(t)
		return true
	case fFeas:
		i.record(Decision{Kind: 'b', Val: 0})
		i.assertPC(i.pool.Not(t))
		return false
	}
	// path condition itself infeasible (should not happen: pc is kept satisfiable)
	panic(pathEnd{&PathResult{Kind: "dropped", Msg: "infeasible path condition at branch"}})
}

// concretize picks a concrete value for a symbolic scalar, forking over the
// other admissible values (up to ConcCap).
func (i *interpreter) concretize(s sv) value {
	if i.sub != nil {
		panic(summaryAbort{"concretisation inside a summarised callee"})
	}
	p := i.pool
	eqv := func(bits uint64) *Term {
		if s.t.sort == SBool {
			if bits != 0 {
				return s.t
			}
			return p.Not(s.t)
		}
		if s.t.sort == SFP64 {
			return p.mk("=", SBool, s.t, p.FP(fromBits(types.Float64, bits).(float64)))
		}
		return p.Eq(s.t, p.BV(bits, s.t.sort))
	}
	var excl []uint64
	if d, ok := i.nextDecision(); ok {
		if d.Kind != 'c' {
			panic(engineError{fmt.Sprintf("decision mismatch: expected concretize, prefix has %v at %d", d, i.pos-1), ""})
		}
		if len(d.Excl) == 0 {
			i.trace = append(i.trace, d)
			i.assertPC(eqv(d.Val))
			return fromBits(s.k, d.Val)
		}
		excl = d.Excl
	}
	for _, e := range excl {
		i.assertPC(p.Not(eqv(e)))
	}
	if fv := s.t.freeVars(); len(fv) == 1 {
		if d := i.doms[fv[0]]; d != nil && !d.entangled {
			// finite-domain fast path: the values the term takes over the remaining domain
			var cands []uint64
			okAll := true
			for _, dv := range d.vals {
				r, ok := s.t.eval(fv[0], dv)
				if !ok {
					okAll = false
					break
				}
				dup := false
				for _, c := range cands {
					if c == r {
						dup = true
					}
				}
				if !dup {
					cands = append(cands, r)
				}
			}
			if okAll {
				if len(cands) == 0 {
					panic(pathEnd{&PathResult{Kind: "dropped", Msg: "no further value"}})
				}
				if len(excl)+len(cands) > i.cfg.ConcCap && len(cands) > 1 {
					panic(budgetPanic{"concretize", fmt.Sprintf("more than %d values at a concretisation site", i.cfg.ConcCap)})
				}
				v := cands[0]
				i.fastDecisions++
				if len(cands) > 1 {
					i.pushAlt(Decision{Kind: 'c', Excl: append(append([]uint64{}, excl...), v)})
				}
				i.record(Decision{Kind: 'c', Val: v})
				i.assertPC(eqv(v))
				return fromBits(s.k, v)
			}
		}
	}
	i.solver.define(s.t)
	r := i.check(nil, false)
	if r != Sat {
		if r == Unknown {
			panic(pathEnd{&PathResult{Kind: "solver", Msg: "unknown while concretising"}})
		}
		panic(pathEnd{&PathResult{Kind: "dropped", Msg: "no further value"}})
	}
	vals, err := i.solver.Values([]*Term{s.t})
	if err != nil {
		panic(pathEnd{&PathResult{Kind: "solver", Msg: err.Error()}})
	}
	v := vals[0]
	nexcl := append(append([]uint64{}, excl...), v)
	if len(nexcl) < i.cfg.ConcCap {
		// sibling: any other value
		i.queries++
		i.solver.Push()
		i.solver.Assert(p.Not(eqv(v)))
		r2 := i.solver.Check(nil, false)
		i.solver.Pop()
		if r2 != Unsat {
			i.pushAlt(Decision{Kind: 'c', Excl: nexcl})
		}
	} else {
		i.solver.Push()
		i.solver.Assert(p.Not(eqv(v)))
		r2 := i.solver.Check(nil, false)
		i.solver.Pop()
		if r2 != Unsat {
			panic(budgetPanic{"concretize", fmt.Sprintf("more than %d values at a concretisation site", i.cfg.ConcCap)})
		}
	}
	i.record(Decision{Kind: 'c', Val: v})
	i.assertPC(eqv(v))
	return fromBits(s.k, v)
}

// choice is a finite nondeterministic choice in [0,n) made by the harness or the scheduler.
func (i *interpreter) choice(kind byte, n int) int {
	if n <= 1 {
		return 0
	}
	if i.sub != nil {
		panic(summaryAbort{"nondeterministic choice inside a summarised callee"})
	}
	if d, ok := i.nextDecision(); ok {
		if d.Kind != kind {
			panic(engineError{fmt.Sprintf("decision mismatch: expected %c, prefix has %v at %d", kind, d, i.pos-1), ""})
		}
		i.trace = append(i.trace, d)
		if int(d.Val) >= n {
			panic(engineError{fmt.Sprintf("decision out of range: %v with n=%d", d, n), ""})
		}
		return int(d.Val)
	}
	for k := n - 1; k >= 1; k-- {
		i.pushAlt(Decision{Kind: kind, Val: uint64(k), N: n})
	}
	i.record(Decision{Kind: kind, Val: 0, N: n})
	return 0
}

// ---- symbolic variables ----

func (i *interpreter) newVar(name string, k types.BasicKind) value {
	n := i.varCount[name]
	i.varCount[name] = n + 1
	full := fmt.Sprintf("%s#%d", name, n)
	i.varKinds[full] = k
	smtName := "|" + strings.ReplaceAll(full, "|", "_") + "|"
	if k == types.Float64 {
		bv := i.pool.Var(smtName, SBV64)
		i.solver.Declare(bv)
		return sv{k, i.pool.mk("(_ to_fp 11 53)", SFP64, bv)}
	}
	v := i.pool.Var(smtName, kindSort(k))
	i.solver.Declare(v)
	return sv{k, v}
}

// model extracts the values of all declared variables (after a Sat check).
func (i *interpreter) model() (map[string]string, error) {
	vars := i.pool.vars
	vals, err := i.solver.Values(vars)
	if err != nil {
		return nil, err
	}
	m := make(map[string]string, len(vars))
	for k, v := range vars {
		name := strings.Trim(v.name, "|")
		kind := i.varKinds[name]
		m[name] = fmt.Sprintf("%s:%d", types.Typ[kind].Name(), vals[k])
	}
	return m, nil
}

// ---- running one path ----

// Explorer runs all paths of a harness.
type Explorer struct {
	Prog    *ssa.Program
	Cfg     Config
	H       *Harness
	mu      sync.Mutex
	work    [][]Decision
	active  int
	cond    *sync.Cond
	Results []*PathResult
	Stats   ExploreStats
	stop    bool
	OnPath  func(*PathResult)
}

type ExploreStats struct {
	Paths       int
	Completed   int
	Dropped     int
	Violations  int
	Unsupported int
	Budget      int
	EngineErr   int
	Hang        int
	SolverInc   int
	Transitions int
	Queries     int
	Sat         int
	Unsat       int
	Unknown     int
	SolverErr   int
	SolverTime  time.Duration
	Steps       int64
	Wall        time.Duration
	Funcs       map[string]int
	Covers      map[string]int
	Truncated   bool
	SecondAgree int
	FastDecisions int
	SecondDis   int
}

func (e *Explorer) Run() {
	start := time.Now()
	e.cond = sync.NewCond(&e.mu)
	e.work = [][]Decision{nil}
	e.Stats.Funcs = map[string]int{}
	e.Stats.Covers = map[string]int{}
	var wg sync.WaitGroup
	nw := e.Cfg.Workers
	if nw <= 0 {
		nw = 1
	}
	for w := 0; w < nw; w++ {
		wg.Add(1)
		go func() {
			defer wg.Done()
			kind := e.Cfg.Solver
			if kind == "" {
				kind = "z3"
			}
			s, err := NewSolver(kind, e.Cfg.SolverMs)
			if err != nil {
				panic(err)
			}
			defer s.Close()
			var extra []*Solver
			for _, k := range e.Cfg.SecondCheck {
				x, err := NewSolver(k, e.Cfg.SolverMs)
				if err == nil {
					extra = append(extra, x)
					defer x.Close()
				}
			}
			for {
				e.mu.Lock()
				for len(e.work) == 0 && e.active > 0 && !e.stop {
					e.cond.Wait()
				}
				if e.stop || (len(e.work) == 0 && e.active == 0) {
					e.mu.Unlock()
					e.cond.Broadcast()
					return
				}
				prefix := e.work[len(e.work)-1]
				e.work = e.work[:len(e.work)-1]
				e.active++
				e.mu.Unlock()

				res, pending, it := runPath(e.Prog, &e.Cfg, e.H, s, extra, prefix)

				e.mu.Lock()
				e.active--
				e.work = append(e.work, pending...)
				e.account(res, it, s)
				if e.Stats.Paths >= e.Cfg.MaxPaths || (e.Cfg.TimeBudget > 0 && time.Since(start) > e.Cfg.TimeBudget) {
					if len(e.work) > 0 {
						e.Stats.Truncated = true
					}
					e.stop = true
				}
				e.mu.Unlock()
				e.cond.Broadcast()
			}
		}()
	}
	wg.Wait()
	e.Stats.Wall = time.Since(start)
}

func (e *Explorer) account(res *PathResult, it *interpreter, s *Solver) {
	st := &e.Stats
	st.Paths++
	st.Transitions += len(res.Trace)
	st.Steps += res.Steps
	st.Queries += it.queries
	st.FastDecisions += it.fastDecisions
	st.SecondDis += it.secondDisagree
	st.SecondAgree += it.assertsChecked
	for f, n := range it.funcs {
		st.Funcs[f.String()] += n
	}
	switch res.Kind {
	case "ok":
		st.Completed++
		for _, c := range res.Covers {
			st.Covers[c]++
		}
	case "dropped":
		st.Dropped++
	case "violation":
		st.Violations++
	case "unsupported":
		st.Unsupported++
	case "budget":
		st.Budget++
	case "engine_error":
		st.EngineErr++
	case "hang":
		st.Hang++
	case "solver":
		st.SolverInc++
	}
	st.Sat += s.Stats.Sat
	st.Unsat += s.Stats.Unsat
	st.Unknown += s.Stats.Unknown
	st.SolverErr += s.Stats.Errors
	st.SolverTime += s.Stats.Time
	s.Stats = SolverStats{}
	keep := res.Kind != "ok" && res.Kind != "dropped"
	if res.Kind == "ok" && len(e.Results) < 4000 {
		keep = true
	}
	if keep {
		e.Results = append(e.Results, res)
	}
	if e.OnPath != nil {
		e.OnPath(res)
	}
}

// runPath executes the harness once under the decision prefix.
func runPath(prog *ssa.Program, cfg *Config, h *Harness, s *Solver, extra []*Solver, prefix []Decision) (res *PathResult, pending [][]Decision, it *interpreter) {
	i := &interpreter{
		prog:         prog,
		cfg:          cfg,
		h:            h,
		globals:      make(map[*ssa.Global]*value),
		pkgInit:      make(map[*ssa.Package]int),
		pool:         newTermPool(),
		solver:       s,
		prefix:       prefix,
		covers:       map[string]bool{},
		varCount:     map[string]int{},
		varKinds:     map[string]types.BasicKind{},
		funcs:        map[*ssa.Function]int{},
		poisoned:     map[*ssa.Global]string{},
		extraSolvers: extra,
		doms:         map[*Term]*domain{},
	}
	if rt := prog.ImportedPackage("runtime"); rt != nil {
		i.runtimeErrorString = rt.Type("errorString").Object().Type()
	}
	s.Reset()
	i.sched = newScheduler(i)
	res = i.sched.runMain(h.Entry)
	if res.Kind == "budget" && res.Model == nil {
		// keep the witness of a path that ran into a loop/step bound: the driver
		// replays it natively to tell an endless loop from a bound that is too small
		i.fillModel(res)
	}
	if len(i.soft) > 0 && res.Kind != "dropped" {
		// one or more oracles failed earlier on this path
		first := i.soft[0]
		nres := &PathResult{Kind: "violation", Label: first.label, Msg: first.msg, Site: first.site, Model: res.Model, Stack: res.Stack}
		seen := map[string]bool{}
		for _, sv := range i.soft {
			if !seen[sv.label] {
				seen[sv.label] = true
				nres.Labels = append(nres.Labels, sv.label)
			}
		}
		if res.Kind == "violation" && !seen[res.Label] {
			nres.Labels = append(nres.Labels, res.Label)
		}
		if res.Kind != "ok" && res.Kind != "violation" {
			nres.Msg += " (path later ended: " + res.Kind + " " + res.Msg + ")"
		}
		if nres.Model == nil {
			i.fillModel(nres)
		}
		res = nres
	} else if res.Kind == "violation" && len(res.Labels) == 0 {
		res.Labels = []string{res.Label}
	}
	res.Trace = i.trace
	res.Steps = i.steps
	res.Queries = i.queries
	res.Unknown = i.unknowns
	res.Observes = i.observes
	for c := range i.covers {
		res.Covers = append(res.Covers, c)
	}
	sort.Strings(res.Covers)
	if res.Kind == "ok" && i.pos < len(i.prefix) {
		res = &PathResult{Kind: "engine_error", Msg: fmt.Sprintf("prefix not consumed (%d of %d): nondeterministic replay", i.pos, len(i.prefix)), Trace: i.trace}
	}
	return res, i.pending, i
}

// finishOK builds the result for a completed path, with a model.
func (i *interpreter) finishOK() *PathResult {
	res := &PathResult{Kind: "ok"}
	i.fillModel(res)
	return res
}

func (i *interpreter) fillModel(res *PathResult) {
	// define observation terms before the check so get-value can see them
	var obsT []*Term
	for _, row := range i.obsTerms {
		for _, v := range row {
			if s, ok := v.(sv); ok {
				i.solver.define(s.t)
				obsT = append(obsT, s.t)
			}
		}
	}
	if len(i.pool.vars) == 0 && len(obsT) == 0 {
		i.renderObserves(nil, nil)
		return
	}
	if i.domModel(res, obsT) {
		return
	}
	r := i.check(nil, false)
	if r != Sat {
		if res.Kind == "ok" {
			if r == Unsat {
				res.Kind = "dropped"
				res.Msg = "final path condition unsat"
			} else {
				res.Kind = "solver"
				res.Msg = "final check unknown"
			}
		}
		return
	}
	m, err := i.model()
	if err != nil {
		res.Kind = "solver"
		res.Msg = err.Error()
		return
	}
	res.Model = m
	vals, err := i.solver.Values(obsT)
	if err != nil {
		res.Kind = "solver"
		res.Msg = err.Error()
		return
	}
	i.renderObserves(obsT, vals)
}

func (i *interpreter) renderObserves(ts []*Term, vals []uint64) {
	k := 0
	for n, row := range i.obsTerms {
		var sb strings.Builder
		sb.WriteString(i.observes[n])
		for _, v := range row {
			sb.WriteByte(' ')
			if s, ok := v.(sv); ok {
				sb.WriteString(renderObs(fromBits(s.k, vals[k])))
				k++
			} else {
				sb.WriteString(renderObs(v))
			}
		}
		i.observes[n] = sb.String()
	}
}

func renderObs(v value) string {
	switch v := v.(type) {
	case iface:
		if v.t == nil {
			return "<nil>"
		}
		return renderObs(v.v)
	case []value:
		var sb strings.Builder
		sb.WriteByte('[')
		for k, e := range v {
			if k > 0 {
				sb.WriteByte(' ')
			}
			sb.WriteString(renderObs(e))
		}
		sb.WriteByte(']')
		return sb.String()
	case string:
		return fmt.Sprintf("%q", v)
	case bool, int, int8, int16, int32, int64, uint, uint8, uint16, uint32, uint64, uintptr, float64:
		return fmt.Sprintf("%v", v)
	case *value:
		if v == nil {
			return "<nilptr>"
		}
		return "<ptr>"
	}
	return fmt.Sprintf("<%T>", v)
}

// domModel builds the model without the solver when every variable still has
// an independent finite domain (the path condition is then a conjunction of
// single-variable constraints, satisfied by any remaining domain value).
func (i *interpreter) domModel(res *PathResult, obsT []*Term) bool {
	assign := map[*Term]uint64{}
	for _, v := range i.pool.vars {
		d := i.doms[v]
		if d == nil || d.entangled {
			if debugQueries {
				fmt.Fprintf(os.Stderr, "DOMMODEL-FAIL var %s dom=%v\n", v.name, d)
			}
			return false
		}
		if len(d.vals) == 0 {
			return false
		}
		assign[v] = d.vals[0]
	}
	vals := make([]uint64, len(obsT))
	for k, t := range obsT {
		fv := t.freeVars()
		switch len(fv) {
		case 0:
			r, ok := t.eval(nil, 0)
			if !ok {
				return false
			}
			vals[k] = r
		case 1:
			r, ok := t.eval(fv[0], assign[fv[0]])
			if !ok {
				return false
			}
			vals[k] = r
		default:
			return false
		}
	}
	m := make(map[string]string, len(assign))
	for v, x := range assign {
		name := strings.Trim(v.name, "|")
		m[name] = fmt.Sprintf("%s:%d", types.Typ[i.varKinds[name]].Name(), x)
	}
	res.Model = m
	i.renderObserves(obsT, vals)
	i.fastDecisions++
	return true
}

var debugQueries = os.Getenv("GOSYM_DEBUG_QUERIES") != ""

// subBranch is branch() inside a summarised callee: decisions, path
// conditions and pending alternatives are local to the sub-exploration.
func (i *interpreter) subBranch(t *Term) bool {
	sub := i.sub
	take := func(v bool) bool {
		c := t
		if !v {
			c = i.pool.Not(t)
		}
		sub.conds = append(sub.conds, c)
		i.solver.Assert(c)
		return v
	}
	if sub.pos < len(sub.prefix) {
		d := sub.prefix[sub.pos]
		sub.pos++
		sub.trace = append(sub.trace, d)
		return take(d.Val != 0)
	}
	rt := i.check(t, false)
	rf := i.check(t, true)
	tF, fF := rt != Unsat, rf != Unsat
	switch {
	case tF && fF:
		alt := append(append([]Decision{}, sub.trace...), Decision{Kind: 'b', Val: 0})
		sub.pending = append(sub.pending, alt)
		sub.trace = append(sub.trace, Decision{Kind: 'b', Val: 1})
		return take(true)
	case tF:
		sub.trace = append(sub.trace, Decision{Kind: 'b', Val: 1})
		return take(true)
	case fF:
		sub.trace = append(sub.trace, Decision{Kind: 'b', Val: 0})
		return take(false)
	}
	panic(summaryAbort{"infeasible inside summarised callee"})
}
