package gosym

// Structural-equality intrinsic for github.com/google/go-cmp (reflection
// based, not interpretable): cmp.Equal honouring exactly cmp.Comparer and
// cmpopts.IgnoreFields, the only options the repository uses. Validated
// against the real library by the native replays of the C15/C16 harnesses.

import (
	"fmt"
	"go/token"
	"go/types"
)

type cmpIgnore struct {
	typ   types.Type
	names map[string]bool
}

type cmpComparer struct {
	fn  value
	typ types.Type
}

func init() {
	register(map[string]externalFn{
		"github.com/google/go-cmp/cmp/cmpopts.IgnoreFields": func(fr *frame, a []value) value {
			it := a[0].(iface)
			ig := cmpIgnore{typ: it.t, names: map[string]bool{}}
			for _, n := range a[1].([]value) {
				ig.names[n.(string)] = true
			}
			return iface{t: types.Typ[types.UnsafePointer], v: native{ig}}
		},
		"github.com/google/go-cmp/cmp.Comparer": func(fr *frame, a []value) value {
			it := a[0].(iface)
			sig, ok := it.t.Underlying().(*types.Signature)
			if !ok || sig.Params().Len() != 2 {
				panic(unsupported("cmp.Comparer with a non-binary function"))
			}
			return iface{t: types.Typ[types.UnsafePointer], v: native{cmpComparer{fn: it.v, typ: sig.Params().At(0).Type()}}}
		},
		"github.com/google/go-cmp/cmp.Equal": func(fr *frame, a []value) value {
			x, y := a[0].(iface), a[1].(iface)
			var igs []cmpIgnore
			var cps []cmpComparer
			if len(a) > 2 {
				for _, o := range a[2].([]value) {
					n, ok := o.(iface).v.(native)
					if !ok {
						panic(unsupported("cmp.Equal with an option other than Comparer/IgnoreFields"))
					}
					switch v := n.v.(type) {
					case cmpIgnore:
						igs = append(igs, v)
					case cmpComparer:
						cps = append(cps, v)
					default:
						panic(unsupported("cmp.Equal with an unknown option"))
					}
				}
			}
			if x.t == nil || y.t == nil {
				return x.t == nil && y.t == nil
			}
			if !types.Identical(x.t, y.t) {
				return false
			}
			return fr.i.cmpEqual(fr, x.t, x.v, y.v, igs, cps, 0)
		},
	})
}

func (i *interpreter) cmpEqual(fr *frame, t types.Type, x, y value, igs []cmpIgnore, cps []cmpComparer, depth int) bool {
	if depth > 32 {
		panic(unsupported("cmp.Equal: structure too deep"))
	}
	for _, c := range cps {
		if types.Identical(c.typ, t) {
			return i.truth(i.call(fr, token.NoPos, c.fn, []value{x, y}))
		}
	}
	switch u := t.Underlying().(type) {
	case *types.Basic:
		return i.truth(i.equalsV(t, x, y))
	case *types.Struct:
		xs, ys := x.(structure), y.(structure)
		for k := 0; k < u.NumFields(); k++ {
			f := u.Field(k)
			skip := false
			for _, ig := range igs {
				if types.Identical(ig.typ, t) && ig.names[f.Name()] {
					skip = true
				}
			}
			if skip {
				continue
			}
			if !f.Exported() {
				panic(unsupported(fmt.Sprintf("cmp.Equal on unexported field %s.%s", t, f.Name())))
			}
			if !i.cmpEqual(fr, f.Type(), xs[k], ys[k], igs, cps, depth+1) {
				return false
			}
		}
		return true
	case *types.Pointer:
		xp, yp := x.(*value), y.(*value)
		if xp == nil || yp == nil {
			return xp == nil && yp == nil
		}
		if xp == yp {
			return true
		}
		return i.cmpEqual(fr, u.Elem(), load(u.Elem(), xp), load(u.Elem(), yp), igs, cps, depth+1)
	case *types.Slice:
		xs, ys := x.([]value), y.([]value)
		if (xs == nil) != (ys == nil) || len(xs) != len(ys) {
			return false
		}
		for k := range xs {
			if !i.cmpEqual(fr, u.Elem(), xs[k], ys[k], igs, cps, depth+1) {
				return false
			}
		}
		return true
	case *types.Array:
		xs, ys := x.(array), y.(array)
		for k := range xs {
			if !i.cmpEqual(fr, u.Elem(), xs[k], ys[k], igs, cps, depth+1) {
				return false
			}
		}
		return true
	case *types.Map:
		xm, ym := x.(*omap), y.(*omap)
		if (xm == nil) != (ym == nil) || xm.len() != ym.len() {
			return false
		}
		if xm == nil {
			return true
		}
		for _, e := range xm.entries {
			if e.deleted {
				continue
			}
			yv, ok := ym.lookup(e.key)
			if !ok || !i.cmpEqual(fr, u.Elem(), e.val, yv, igs, cps, depth+1) {
				return false
			}
		}
		return true
	case *types.Interface:
		xi, yi := x.(iface), y.(iface)
		if xi.t == nil || yi.t == nil {
			return xi.t == nil && yi.t == nil
		}
		if !types.Identical(xi.t, yi.t) {
			return false
		}
		return i.cmpEqual(fr, xi.t, xi.v, yi.v, igs, cps, depth+1)
	}
	panic(unsupported(fmt.Sprintf("cmp.Equal on %v", t)))
}
