package gosym

// One persistent SMT solver process (z3 -in, z3-new -in, or cvc5 --incremental)
// driven over a pipe.  Any "(error" line, "unknown" or timeout makes the
// query inconclusive; it is never treated as unsat.

import (
	"bufio"
	"fmt"
	"io"
	"os/exec"
	"strconv"
	"strings"
	"time"
)

type Result int

const (
	Unsat Result = iota
	Sat
	Unknown
)

func (r Result) String() string {
	switch r {
	case Unsat:
		return "unsat"
	case Sat:
		return "sat"
	}
	return "unknown"
}

type SolverStats struct {
	Sat, Unsat, Unknown, Errors int
	Time                        time.Duration
}

type Solver struct {
	Name    string
	cmd     *exec.Cmd
	in      io.WriteCloser
	out     *bufio.Reader
	defined map[int]bool
	Stats   SolverStats
	log     io.Writer // optional transcript
	dead    bool
	kind    string // "z3" or "cvc5"
	scopes  []map[int]bool  // term ids defined inside each open push scope
	buf     strings.Builder // commands not yet sent (flushed on the first query)
	Flushes int
}

// NewSolver starts a solver. kind is "z3", "z3-new" or "cvc5".
func NewSolver(kind string, timeoutMs int) (*Solver, error) {
	var cmd *exec.Cmd
	s := &Solver{Name: kind, defined: map[int]bool{}, kind: "z3"}
	switch kind {
	case "z3":
		cmd = exec.Command("/usr/bin/z3", "-in", fmt.Sprintf("-t:%d", timeoutMs))
	case "z3-new":
		cmd = exec.Command("z3-new", "-in", fmt.Sprintf("-t:%d", timeoutMs))
	case "cvc5":
		cmd = exec.Command("cvc5", "--incremental", "--lang=smt2", "--produce-models", fmt.Sprintf("--tlimit-per=%d", timeoutMs), "--fp-exp")
		s.kind = "cvc5"
	default:
		return nil, fmt.Errorf("unknown solver %q", kind)
	}
	in, err := cmd.StdinPipe()
	if err != nil {
		return nil, err
	}
	out, err := cmd.StdoutPipe()
	if err != nil {
		return nil, err
	}
	cmd.Stderr = cmd.Stdout
	if err := cmd.Start(); err != nil {
		return nil, err
	}
	s.cmd, s.in, s.out = cmd, in, bufio.NewReaderSize(out, 1<<16)
	s.send("(set-option :produce-models true)\n")
	if s.kind == "cvc5" {
		s.send("(set-logic ALL)\n")
	}
	s.flush()
	return s, nil
}

func (s *Solver) Close() {
	if s.cmd != nil && !s.dead {
		s.in.Close()
		s.cmd.Process.Kill()
		s.cmd.Wait()
		s.dead = true
	}
}

// send buffers a command; nothing reaches the solver process until flush.
func (s *Solver) send(str string) {
	s.buf.WriteString(str)
}

func (s *Solver) flush() {
	if s.buf.Len() == 0 {
		return
	}
	str := s.buf.String()
	s.buf.Reset()
	s.Flushes++
	if s.log != nil {
		io.WriteString(s.log, str)
	}
	if _, err := io.WriteString(s.in, str); err != nil {
		s.dead = true
	}
}

// Reset clears all assertions and definitions.
func (s *Solver) Reset() {
	s.defined = map[int]bool{}
	s.scopes = nil
	s.buf.Reset() // commands of an abandoned path that never queried
	if s.kind == "cvc5" {
		s.send("(reset-assertions)\n")
		return
	}
	s.send("(reset)\n(set-option :produce-models true)\n")
}

func (s *Solver) Push() {
	s.send("(push 1)\n")
	s.scopes = append(s.scopes, map[int]bool{})
}

// Pop drops the innermost scope, including the term definitions made in it.
func (s *Solver) Pop() {
	s.send("(pop 1)\n")
	if n := len(s.scopes); n > 0 {
		for id := range s.scopes[n-1] {
			delete(s.defined, id)
		}
		s.scopes = s.scopes[:n-1]
	}
}

func (s *Solver) Declare(v *Term) {
	s.send(fmt.Sprintf("(declare-const %s %s)\n", v.name, v.sort.SMT()))
}

func (s *Solver) define(t *Term) {
	var sb strings.Builder
	if n := len(s.scopes); n > 0 {
		before := make(map[int]bool, len(s.defined))
		for id := range s.defined {
			before[id] = true
		}
		t.defs(s.defined, &sb)
		for id := range s.defined {
			if !before[id] {
				s.scopes[n-1][id] = true
			}
		}
		if sb.Len() > 0 {
			s.send(sb.String())
		}
		return
	}
	t.defs(s.defined, &sb)
	if sb.Len() > 0 {
		s.send(sb.String())
	}
}

func (s *Solver) Assert(t *Term) {
	s.define(t)
	s.send("(assert " + t.ref() + ")\n")
}

// readSexpr reads one balanced s-expression or atom from the solver.
func (s *Solver) readSexpr() (string, error) {
	var sb strings.Builder
	depth := 0
	started := false
	inStr := false
	for {
		c, err := s.out.ReadByte()
		if err != nil {
			s.dead = true
			return sb.String(), err
		}
		if !started {
			if c == ' ' || c == '\n' || c == '\r' || c == '\t' {
				continue
			}
			started = true
		}
		sb.WriteByte(c)
		if inStr {
			if c == '"' {
				inStr = false
			}
			continue
		}
		switch c {
		case '"':
			inStr = true
		case '(':
			depth++
		case ')':
			depth--
			if depth == 0 {
				return sb.String(), nil
			}
		case '\n', ' ':
			if depth == 0 {
				return strings.TrimSpace(sb.String()), nil
			}
		}
	}
}

// Check decides satisfiability of the asserted formulas together with
// the given assumption literals (each a Bool term; neg[i] negates it).
func (s *Solver) Check(assume *Term, negate bool) Result {
	if s.dead {
		s.Stats.Errors++
		return Unknown
	}
	start := time.Now()
	defer func() { s.Stats.Time += time.Since(start) }()
	if assume == nil {
		s.send("(check-sat)\n")
	} else {
		s.define(assume)
		lit := assume.ref()
		if assume.op == "const" {
			// constants cannot be assumption literals
			v := assume.val != 0
			if negate {
				v = !v
			}
			if !v {
				s.Stats.Unsat++
				return Unsat
			}
			s.send("(check-sat)\n")
		} else if assume.op == "var" || s.kind == "z3" {
			if negate {
				lit = "(not " + lit + ")"
			}
			s.send("(check-sat-assuming (" + lit + "))\n")
		} else {
			if negate {
				lit = "(not " + lit + ")"
			}
			s.send("(check-sat-assuming (" + lit + "))\n")
		}
	}
	s.flush()
	sawErr := false
	for {
		r, err := s.readSexpr()
		if err != nil {
			s.Stats.Errors++
			return Unknown
		}
		switch {
		case r == "sat":
			if sawErr {
				s.Stats.Errors++
				return Unknown
			}
			s.Stats.Sat++
			return Sat
		case r == "unsat":
			if sawErr {
				s.Stats.Errors++
				return Unknown
			}
			s.Stats.Unsat++
			return Unsat
		case r == "unknown" || r == "timeout":
			s.Stats.Unknown++
			return Unknown
		case strings.HasPrefix(r, "(error"):
			sawErr = true
			if s.log != nil {
				fmt.Fprintf(s.log, "; SOLVER ERROR %s\n", r)
			}
			lastSolverError = r
			continue
		default:
			// unexpected output: treat as error and keep reading
			sawErr = true
			lastSolverError = r
			continue
		}
	}
}

var lastSolverError string

// Values returns the model values (as bit patterns) of the given terms.
// Must follow a Check that returned Sat.
func (s *Solver) Values(ts []*Term) ([]uint64, error) {
	res := make([]uint64, len(ts))
	var q []int
	var sb strings.Builder
	for i, t := range ts {
		if t.IsConst() {
			res[i] = t.val
			continue
		}
		s.define(t)
		q = append(q, i)
	}
	if len(q) == 0 {
		return res, nil
	}
	// z3 requires definitions made after check-sat to be visible to get-value:
	// define-fun after a check-sat invalidates the model in some versions, so
	// callers should define terms before the check. We re-check if needed.
	sb.WriteString("(get-value (")
	for _, i := range q {
		t := ts[i]
		if t.sort == SFP64 {
			sb.WriteString("(fp.to_ieee_bv " + t.ref() + ") ")
		} else {
			sb.WriteString(t.ref() + " ")
		}
	}
	sb.WriteString("))\n")
	s.send(sb.String())
	s.flush()
	r, err := s.readSexpr()
	if err != nil {
		return nil, err
	}
	if strings.HasPrefix(r, "(error") {
		return nil, fmt.Errorf("get-value: %s", r)
	}
	vals, err := parseValues(r)
	if err != nil {
		return nil, err
	}
	if len(vals) != len(q) {
		return nil, fmt.Errorf("get-value: expected %d values, got %d in %q", len(q), len(vals), r)
	}
	for k, i := range q {
		res[i] = vals[k]
	}
	return res, nil
}

// parseValues parses "((a #x01) (b true) ((fp.to_ieee_bv x) #x...))".
func parseValues(r string) ([]uint64, error) {
	r = strings.TrimSpace(r)
	if len(r) < 2 || r[0] != '(' {
		return nil, fmt.Errorf("bad get-value response %q", r)
	}
	r = r[1 : len(r)-1]
	var out []uint64
	i := 0
	for i < len(r) {
		if r[i] != '(' {
			i++
			continue
		}
		// find matching paren
		depth := 0
		j := i
		for ; j < len(r); j++ {
			if r[j] == '(' {
				depth++
			} else if r[j] == ')' {
				depth--
				if depth == 0 {
					break
				}
			}
		}
		pair := strings.TrimSpace(r[i+1 : j])
		i = j + 1
		// value is the last token (or last s-expr) of the pair
		var val string
		if strings.HasSuffix(pair, ")") {
			// value is an s-expr, e.g. (_ bv5 8)
			d := 0
			k := len(pair) - 1
			for ; k >= 0; k-- {
				if pair[k] == ')' {
					d++
				} else if pair[k] == '(' {
					d--
					if d == 0 {
						break
					}
				}
			}
			val = pair[k:]
		} else {
			k := strings.LastIndexAny(pair, " \n\t")
			val = pair[k+1:]
		}
		v, err := parseValue(val)
		if err != nil {
			return nil, err
		}
		out = append(out, v)
	}
	return out, nil
}

func parseValue(v string) (uint64, error) {
	switch {
	case v == "true":
		return 1, nil
	case v == "false":
		return 0, nil
	case strings.HasPrefix(v, "#x"):
		return strconv.ParseUint(v[2:], 16, 64)
	case strings.HasPrefix(v, "#b"):
		return strconv.ParseUint(v[2:], 2, 64)
	case strings.HasPrefix(v, "(_ bv"):
		f := strings.Fields(v[5:])
		return strconv.ParseUint(f[0], 10, 64)
	}
	return 0, fmt.Errorf("cannot parse model value %q", v)
}
