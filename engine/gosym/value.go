// Copyright 2013 The Go Authors. All rights reserved.
// Use of this source code is governed by a BSD-style
// license that can be found in the LICENSE file.

package gosym

// Values
//
// All interpreter values are "boxed" in the empty interface, value.
// The range of possible dynamic types within value are:
//
// - bool
// - numbers (all built-in int/float/complex types are distinguished)
// - string
// - map[value]value --- maps for which  usesBuiltinMap(keyType)
//   *hashmap        --- maps for which !usesBuiltinMap(keyType)
// - chan value
// - []value --- slices
// - iface --- interfaces.
// - structure --- structs.  Fields are ordered and accessed by numeric indices.
// - array --- arrays.
// - *value --- pointers.  Careful: *value is a distinct type from *array etc.
// - *ssa.Function \
//   *ssa.Builtin   } --- functions.  A nil 'func' is always of type *ssa.Function.
//   *closure      /
// - tuple --- as returned by Return, Next, "value,ok" modes, etc.
// - iter --- iterators from 'range' over map or string.
// - bad --- a poison pill for locals that have gone out of scope.
// - rtype -- the interpreter's concrete implementation of reflect.Type
// - **deferred -- the address of a frame's defer stack for a Defer._Stack.
//
// Note that nil is not on this list.
//
// Pay close attention to whether or not the dynamic type is a pointer.
// The compiler cannot help you since value is an empty interface.

import (
	"bytes"
	"fmt"
	"go/types"
	"math"
	"unicode/utf8"

	"golang.org/x/tools/go/ssa"
)

type value interface{}

type tuple []value

type array []value

type iface struct {
	t types.Type // never an "untyped" type
	v value
}

type structure []value

// For map, array, *array, slice, string or channel.
type iter interface {
	// next returns a Tuple (key, value, ok).
	// key and value are unaliased, e.g. copies of the sequence element.
	next() tuple
}

type closure struct {
	Fn  *ssa.Function
	Env []value
}

type bad struct{}


// reflect.Value struct values don't have a fixed shape, since the
// payload can be a scalar or an aggregate depending on the instance.
// So store (and load) can't simply use recursion over the shape of the
// rhs value, or the lhs, to copy the value; we need the static type
// information.  (We can't make reflect.Value a new basic data type
// because its "structness" is exposed to Go programs.)

// load returns the value of type T in *addr.
func load(T types.Type, addr *value) value {
	switch T := T.Underlying().(type) {
	case *types.Struct:
		v := (*addr).(structure)
		a := make(structure, len(v))
		for i := range a {
			a[i] = load(T.Field(i).Type(), &v[i])
		}
		return a
	case *types.Array:
		v := (*addr).(array)
		a := make(array, len(v))
		for i := range a {
			a[i] = load(T.Elem(), &v[i])
		}
		return a
	default:
		return *addr
	}
}

// store stores value v of type T into *addr.
func store(T types.Type, addr *value, v value) {
	switch T := T.Underlying().(type) {
	case *types.Struct:
		lhs := (*addr).(structure)
		rhs := v.(structure)
		for i := range lhs {
			store(T.Field(i).Type(), &lhs[i], rhs[i])
		}
	case *types.Array:
		lhs := (*addr).(array)
		rhs := v.(array)
		for i := range lhs {
			store(T.Elem(), &lhs[i], rhs[i])
		}
	default:
		*addr = v
	}
}

// ------------------------------------------------------------------------
// Symbolic scalars

// sv is a symbolic scalar: a bool, an integer of a specific Go kind, or a float64.
type sv struct {
	k types.BasicKind
	t *Term
}

// uptr is the boxed representation of unsafe.Pointer: it just carries the
// original pointer value so that *T -> unsafe.Pointer -> *T round-trips.
type uptr struct{ v value }

func isSym(x value) bool { _, ok := x.(sv); return ok }

func kindBits(k types.BasicKind) int {
	switch k {
	case types.Bool:
		return 1
	case types.Int8, types.Uint8:
		return 8
	case types.Int16, types.Uint16:
		return 16
	case types.Int32, types.Uint32:
		return 32
	case types.Int, types.Int64, types.Uint, types.Uint64, types.Uintptr, types.Float64:
		return 64
	}
	panic(fmt.Sprintf("kindBits(%v)", k))
}

func kindSigned(k types.BasicKind) bool {
	switch k {
	case types.Int, types.Int8, types.Int16, types.Int32, types.Int64:
		return true
	}
	return false
}

func kindSort(k types.BasicKind) Sort {
	switch k {
	case types.Bool:
		return SBool
	case types.Float64:
		return SFP64
	}
	return bvSort(kindBits(k))
}

// kindOf returns the basic kind of a concrete scalar value.
func kindOf(x value) (types.BasicKind, bool) {
	switch x := x.(type) {
	case bool:
		return types.Bool, true
	case int:
		return types.Int, true
	case int8:
		return types.Int8, true
	case int16:
		return types.Int16, true
	case int32:
		return types.Int32, true
	case int64:
		return types.Int64, true
	case uint:
		return types.Uint, true
	case uint8:
		return types.Uint8, true
	case uint16:
		return types.Uint16, true
	case uint32:
		return types.Uint32, true
	case uint64:
		return types.Uint64, true
	case uintptr:
		return types.Uintptr, true
	case float64:
		return types.Float64, true
	case sv:
		return x.k, true
	}
	return 0, false
}

// fromBits builds the concrete Go value of kind k from a bit pattern.
func fromBits(k types.BasicKind, b uint64) value {
	switch k {
	case types.Bool:
		return b != 0
	case types.Int:
		return int(b)
	case types.Int8:
		return int8(b)
	case types.Int16:
		return int16(b)
	case types.Int32:
		return int32(b)
	case types.Int64:
		return int64(b)
	case types.Uint:
		return uint(b)
	case types.Uint8:
		return uint8(b)
	case types.Uint16:
		return uint16(b)
	case types.Uint32:
		return uint32(b)
	case types.Uint64:
		return uint64(b)
	case types.Uintptr:
		return uintptr(b)
	case types.Float64:
		return math.Float64frombits(b)
	}
	panic(fmt.Sprintf("fromBits(%v)", k))
}

// toBits returns the bit pattern of a concrete scalar.
func toBits(x value) uint64 {
	switch x := x.(type) {
	case bool:
		if x {
			return 1
		}
		return 0
	case int:
		return uint64(x)
	case int8:
		return uint64(x)
	case int16:
		return uint64(x)
	case int32:
		return uint64(x)
	case int64:
		return uint64(x)
	case uint:
		return uint64(x)
	case uint8:
		return uint64(x)
	case uint16:
		return uint64(x)
	case uint32:
		return uint64(x)
	case uint64:
		return x
	case uintptr:
		return uint64(x)
	case float64:
		return math.Float64bits(x)
	}
	panic(fmt.Sprintf("toBits(%T)", x))
}

// term lifts a scalar value (concrete or symbolic) to a term.
func (i *interpreter) term(x value) *Term {
	switch x := x.(type) {
	case sv:
		return x.t
	case bool:
		return i.pool.Bool(x)
	case float64:
		return i.pool.FP(x)
	}
	k, ok := kindOf(x)
	if !ok {
		panic(unsupported(fmt.Sprintf("cannot lift %T to a term", x)))
	}
	return i.pool.BV(toBits(x), kindSort(k))
}

// mkval wraps a term as a value of kind k, collapsing constants.
func mkval(k types.BasicKind, t *Term) value {
	if t.IsConst() {
		return fromBits(k, t.val)
	}
	return sv{k, t}
}

// ------------------------------------------------------------------------
// Ordered maps (deterministic iteration: insertion order)

type mapEntry struct {
	key, val value
	deleted  bool
}

type omap struct {
	keyType types.Type
	idx     map[any]int
	entries []mapEntry
	live    int
}

func makeMap(kt types.Type, reserve int64) value {
	return &omap{keyType: kt, idx: make(map[any]int)}
}

// mapKey canonicalises a key value into a Go-comparable value.
func mapKey(v value) any {
	switch v := v.(type) {
	case structure:
		var sb bytes.Buffer
		sb.WriteString("S{")
		for _, f := range v {
			fmt.Fprintf(&sb, "%v|", mapKey(f))
		}
		sb.WriteString("}")
		return sb.String()
	case array:
		var sb bytes.Buffer
		sb.WriteString("A[")
		for _, f := range v {
			fmt.Fprintf(&sb, "%v|", mapKey(f))
		}
		sb.WriteString("]")
		return sb.String()
	case iface:
		if v.t == nil {
			return "I<nil>"
		}
		return fmt.Sprintf("I<%s:%v>", types.TypeString(v.t, nil), mapKey(v.v))
	case string:
		return "s:" + v
	case sv:
		panic(unsupported("symbolic map key"))
	case *value, *gchan, *omap:
		return v
	case uptr:
		return mapKey(v.v)
	}
	return fmt.Sprintf("%T:%v", v, v)
}

func (m *omap) lookup(k value) (value, bool) {
	if m == nil {
		return nil, false
	}
	if j, ok := m.idx[mapKey(k)]; ok {
		return m.entries[j].val, true
	}
	return nil, false
}

func (m *omap) insert(k, v value) {
	mk := mapKey(k)
	if j, ok := m.idx[mk]; ok {
		m.entries[j].val = v
		return
	}
	m.idx[mk] = len(m.entries)
	m.entries = append(m.entries, mapEntry{key: k, val: v})
	m.live++
}

func (m *omap) delete(k value) {
	if m == nil {
		return
	}
	mk := mapKey(k)
	if j, ok := m.idx[mk]; ok {
		m.entries[j].deleted = true
		m.entries[j].val = nil
		delete(m.idx, mk)
		m.live--
	}
}

func (m *omap) len() int {
	if m == nil {
		return 0
	}
	return m.live
}

func (m *omap) clear() {
	if m == nil {
		return
	}
	for j := range m.entries {
		m.entries[j].deleted = true
	}
	m.idx = make(map[any]int)
	m.live = 0
}

type omapIter struct {
	m   *omap
	pos int
}

func (it *omapIter) next() tuple {
	if it.m != nil {
		for it.pos < len(it.m.entries) {
			e := it.m.entries[it.pos]
			it.pos++
			if !e.deleted {
				return tuple{true, e.key, e.val}
			}
		}
	}
	return tuple{false, nil, nil}
}

type stringIter struct {
	s string
	i int
}

func (it *stringIter) next() tuple {
	okv := make(tuple, 3)
	if it.i >= len(it.s) {
		okv[0] = false
		return okv
	}
	ch, n := utf8.DecodeRuneInString(it.s[it.i:])
	okv[0] = true
	okv[1] = it.i
	okv[2] = ch
	it.i += n
	return okv
}

// ------------------------------------------------------------------------
// Debug printing

func writeValue(buf *bytes.Buffer, v value, depth int) {
	if depth > 4 {
		buf.WriteString("…")
		return
	}
	switch v := v.(type) {
	case nil, bool, int, int8, int16, int32, int64, uint, uint8, uint16, uint32, uint64, uintptr, float32, float64, complex64, complex128, string:
		fmt.Fprintf(buf, "%v", v)
	case sv:
		fmt.Fprintf(buf, "sym<%s>", v.t.String())
	case *omap:
		buf.WriteString("map[")
		if v != nil {
			sep := ""
			for _, e := range v.entries {
				if e.deleted {
					continue
				}
				buf.WriteString(sep)
				sep = " "
				writeValue(buf, e.key, depth+1)
				buf.WriteString(":")
				writeValue(buf, e.val, depth+1)
			}
		}
		buf.WriteString("]")
	case *gchan:
		fmt.Fprintf(buf, "chan(%p)", v)
	case *value:
		if v == nil {
			buf.WriteString("<nil>")
		} else {
			fmt.Fprintf(buf, "%p", v)
		}
	case iface:
		if v.t == nil {
			buf.WriteString("<nil>")
			return
		}
		fmt.Fprintf(buf, "(%s, ", v.t)
		writeValue(buf, v.v, depth+1)
		buf.WriteString(")")
	case structure:
		buf.WriteString("{")
		for i, e := range v {
			if i > 0 {
				buf.WriteString(" ")
			}
			writeValue(buf, e, depth+1)
		}
		buf.WriteString("}")
	case array:
		buf.WriteString("[")
		for i, e := range v {
			if i > 0 {
				buf.WriteString(" ")
			}
			writeValue(buf, e, depth+1)
		}
		buf.WriteString("]")
	case []value:
		buf.WriteString("[")
		for i, e := range v {
			if i > 0 {
				buf.WriteString(" ")
			}
			writeValue(buf, e, depth+1)
		}
		buf.WriteString("]")
	case *ssa.Function, *ssa.Builtin, *closure:
		fmt.Fprintf(buf, "%p", v)
	case tuple:
		buf.WriteString("(")
		for i, e := range v {
			if i > 0 {
				buf.WriteString(", ")
			}
			writeValue(buf, e, depth+1)
		}
		buf.WriteString(")")
	default:
		fmt.Fprintf(buf, "<%T>", v)
	}
}

func toString(v value) string {
	var b bytes.Buffer
	writeValue(&b, v, 0)
	return b.String()
}
