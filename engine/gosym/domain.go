package gosym

// Finite-domain fast path. A variable created by verifChoice/verifBool has a
// small explicit domain. As long as it only ever occurred in constraints that
// mention no other variable, a condition over that single variable is decided
// exactly by evaluating it on every remaining domain value — no solver call.
// Everything else goes to the SMT solver. All constraints are still asserted
// to the solver, so models and mixed constraints stay exact.

import (
	"fmt"
	"strings"
)

type domain struct {
	vals      []uint64
	entangled bool
}

const manyVars = 2

// freeVars returns the distinct variables of t, capped: nil,1 element, or a
// 2-element slice meaning "more than one".
func (t *Term) freeVars() []*Term {
	if t.fvDone {
		return t.fv
	}
	t.fvDone = true
	switch t.op {
	case "const":
		return nil
	case "var":
		if t.name == "RNE" || t.name == "RTZ" {
			return nil
		}
		t.fv = []*Term{t}
		return t.fv
	}
	var out []*Term
	for _, a := range t.args {
		for _, v := range a.freeVars() {
			dup := false
			for _, o := range out {
				if o == v {
					dup = true
				}
			}
			if !dup {
				out = append(out, v)
			}
		}
		if len(out) > manyVars {
			out = out[:manyVars+1]
		}
	}
	t.fv = out
	return out
}

// eval computes t under the assignment v := val. ok=false if an operator is
// not supported by the evaluator (the caller then uses the solver).
func (t *Term) eval(v *Term, val uint64) (uint64, bool) {
	switch t.op {
	case "const":
		return t.val, true
	case "var":
		if t == v {
			return val, true
		}
		return 0, false
	}
	var a [3]uint64
	if len(t.args) > 3 {
		return 0, false
	}
	// short-circuit forms first
	switch t.op {
	case "ite":
		c, ok := t.args[0].eval(v, val)
		if !ok {
			return 0, false
		}
		if c != 0 {
			return t.args[1].eval(v, val)
		}
		return t.args[2].eval(v, val)
	}
	for k, x := range t.args {
		r, ok := x.eval(v, val)
		if !ok {
			return 0, false
		}
		a[k] = r
	}
	bits := 64
	if len(t.args) > 0 {
		bits = t.args[0].sort.Bits()
	}
	m := mask(t.sort.Bits())
	b2u := func(b bool) uint64 {
		if b {
			return 1
		}
		return 0
	}
	switch t.op {
	case "not":
		return b2u(a[0] == 0), true
	case "and":
		return b2u(a[0] != 0 && a[1] != 0), true
	case "or":
		return b2u(a[0] != 0 || a[1] != 0), true
	case "=":
		if t.args[0].sort == SFP64 {
			return 0, false
		}
		return b2u(a[0] == a[1]), true
	case "bvadd":
		return (a[0] + a[1]) & m, true
	case "bvsub":
		return (a[0] - a[1]) & m, true
	case "bvmul":
		return (a[0] * a[1]) & m, true
	case "bvand":
		return a[0] & a[1], true
	case "bvor":
		return a[0] | a[1], true
	case "bvxor":
		return a[0] ^ a[1], true
	case "bvnot":
		return ^a[0] & m, true
	case "bvneg":
		return (-a[0]) & m, true
	case "bvshl":
		if a[1] >= uint64(bits) {
			return 0, true
		}
		return (a[0] << a[1]) & m, true
	case "bvlshr":
		if a[1] >= uint64(bits) {
			return 0, true
		}
		return a[0] >> a[1], true
	case "bvashr":
		sh := a[1]
		if sh >= uint64(bits) {
			sh = uint64(bits - 1)
		}
		return uint64(sext(a[0], bits)>>sh) & m, true
	case "bvudiv":
		if a[1] == 0 {
			return m, true
		}
		return a[0] / a[1], true
	case "bvurem":
		if a[1] == 0 {
			return a[0], true
		}
		return a[0] % a[1], true
	case "bvsdiv", "bvsrem":
		sx, sy := sext(a[0], bits), sext(a[1], bits)
		if sy == 0 {
			return 0, false
		}
		if sy == -1 {
			if t.op == "bvsdiv" {
				return uint64(-sx) & m, true
			}
			return 0, true
		}
		if t.op == "bvsdiv" {
			return uint64(sx/sy) & m, true
		}
		return uint64(sx%sy) & m, true
	case "bvult":
		return b2u(a[0] < a[1]), true
	case "bvule":
		return b2u(a[0] <= a[1]), true
	case "bvugt":
		return b2u(a[0] > a[1]), true
	case "bvuge":
		return b2u(a[0] >= a[1]), true
	case "bvslt":
		return b2u(sext(a[0], bits) < sext(a[1], bits)), true
	case "bvsle":
		return b2u(sext(a[0], bits) <= sext(a[1], bits)), true
	case "bvsgt":
		return b2u(sext(a[0], bits) > sext(a[1], bits)), true
	case "bvsge":
		return b2u(sext(a[0], bits) >= sext(a[1], bits)), true
	}
	if strings.HasPrefix(t.op, "(_ extract") {
		var hi, lo int
		fmt.Sscanf(t.op, "(_ extract %d %d)", &hi, &lo)
		return (a[0] >> uint(lo)) & mask(hi-lo+1), true
	}
	if strings.HasPrefix(t.op, "(_ zero_extend") {
		return a[0], true
	}
	if strings.HasPrefix(t.op, "(_ sign_extend") {
		return uint64(sext(a[0], bits)) & m, true
	}
	return 0, false
}

// domFeasible decides, for a condition over exactly one unentangled domain
// variable, whether it can be true and whether it can be false.
func (i *interpreter) domFeasible(t *Term) (canT, canF, ok bool) {
	fv := t.freeVars()
	if len(fv) != 1 {
		return false, false, false
	}
	d := i.doms[fv[0]]
	if d == nil || d.entangled {
		return false, false, false
	}
	for _, val := range d.vals {
		r, ok := t.eval(fv[0], val)
		if !ok {
			return false, false, false
		}
		if r != 0 {
			canT = true
		} else {
			canF = true
		}
		if canT && canF {
			break
		}
	}
	return canT, canF, true
}

// domAssert updates the domains for a constraint being added to the path condition.
func (i *interpreter) domAssert(t *Term) {
	if len(i.doms) == 0 {
		return
	}
	fv := t.freeVars()
	if len(fv) == 1 {
		d := i.doms[fv[0]]
		if d == nil || d.entangled {
			return
		}
		kept := d.vals[:0:0]
		for _, val := range d.vals {
			r, ok := t.eval(fv[0], val)
			if !ok {
				d.entangled = true
				return
			}
			if r != 0 {
				kept = append(kept, val)
			}
		}
		d.vals = kept
		return
	}
	for _, v := range fv {
		if d := i.doms[v]; d != nil {
			d.entangled = true
		}
	}
	if len(fv) > manyVars {
		// capped list: we do not know all variables; be conservative
		i.entangleAll(t, map[*Term]bool{})
	}
}

func (i *interpreter) entangleAll(t *Term, seen map[*Term]bool) {
	if seen[t] {
		return
	}
	seen[t] = true
	if t.op == "var" {
		if d := i.doms[t]; d != nil {
			d.entangled = true
		}
		return
	}
	for _, a := range t.args {
		i.entangleAll(a, seen)
	}
}
