package gosym

// Symbolic terms and their SMT-LIB2 rendering.
//
// Sorts: Bool, (_ BitVec n) for n in {8,16,32,64}, and Float64
// ((_ FloatingPoint 11 53)).  Terms are immutable DAG nodes; each term
// gets a per-path id and is sent to the solver once as a define-fun so
// that sharing never blows up the rendering.

import (
	"fmt"
	"math"
	"strings"
)

type Sort uint8

const (
	SBool Sort = iota
	SBV8
	SBV16
	SBV32
	SBV64
	SFP64
)

func (s Sort) Bits() int {
	switch s {
	case SBV8:
		return 8
	case SBV16:
		return 16
	case SBV32:
		return 32
	case SBV64, SFP64:
		return 64
	}
	return 1
}

func (s Sort) SMT() string {
	switch s {
	case SBool:
		return "Bool"
	case SFP64:
		return "(_ FloatingPoint 11 53)"
	}
	return fmt.Sprintf("(_ BitVec %d)", s.Bits())
}

func bvSort(bits int) Sort {
	switch bits {
	case 8:
		return SBV8
	case 16:
		return SBV16
	case 32:
		return SBV32
	case 64:
		return SBV64
	}
	panic(fmt.Sprintf("bvSort(%d)", bits))
}

type Term struct {
	op   string // "var", "const", or an SMT operator (possibly indexed, e.g. "(_ extract 7 0)")
	args []*Term
	sort Sort
	val  uint64 // const: bit pattern (bool: 0/1; fp: IEEE bits)
	name string // var: declared name
	id   int    // unique per termPool
	fv     []*Term
	fvDone bool
}

func (t *Term) IsConst() bool { return t.op == "const" }
func (t *Term) Sort() Sort    { return t.sort }

// termPool allocates terms for one path execution.
type termPool struct {
	next int
	vars []*Term
	// consts cache
	tt, ff *Term
}

func newTermPool() *termPool {
	p := &termPool{}
	p.tt = &Term{op: "const", sort: SBool, val: 1, id: p.nid()}
	p.ff = &Term{op: "const", sort: SBool, val: 0, id: p.nid()}
	return p
}

func (p *termPool) nid() int { p.next++; return p.next }

func (p *termPool) Var(name string, s Sort) *Term {
	t := &Term{op: "var", sort: s, name: name, id: p.nid()}
	p.vars = append(p.vars, t)
	return t
}

func (p *termPool) Bool(b bool) *Term {
	if b {
		return p.tt
	}
	return p.ff
}

func mask(bits int) uint64 {
	if bits >= 64 {
		return ^uint64(0)
	}
	return (uint64(1) << uint(bits)) - 1
}

func (p *termPool) BV(v uint64, s Sort) *Term {
	return &Term{op: "const", sort: s, val: v & mask(s.Bits()), id: p.nid()}
}

func (p *termPool) FP(f float64) *Term {
	return &Term{op: "const", sort: SFP64, val: math.Float64bits(f), id: p.nid()}
}

func (p *termPool) mk(op string, s Sort, args ...*Term) *Term {
	return &Term{op: op, sort: s, args: args, id: p.nid()}
}

// ---- boolean connectives with light simplification ----

func (p *termPool) Not(a *Term) *Term {
	if a.IsConst() {
		return p.Bool(a.val == 0)
	}
	if a.op == "not" {
		return a.args[0]
	}
	return p.mk("not", SBool, a)
}

func (p *termPool) And(a, b *Term) *Term {
	if a.IsConst() {
		if a.val == 0 {
			return p.ff
		}
		return b
	}
	if b.IsConst() {
		if b.val == 0 {
			return p.ff
		}
		return a
	}
	if a == b {
		return a
	}
	return p.mk("and", SBool, a, b)
}

func (p *termPool) Or(a, b *Term) *Term {
	if a.IsConst() {
		if a.val != 0 {
			return p.tt
		}
		return b
	}
	if b.IsConst() {
		if b.val != 0 {
			return p.tt
		}
		return a
	}
	if a == b {
		return a
	}
	return p.mk("or", SBool, a, b)
}

func (p *termPool) Implies(a, b *Term) *Term { return p.Or(p.Not(a), b) }

func (p *termPool) Ite(c, a, b *Term) *Term {
	if c.IsConst() {
		if c.val != 0 {
			return a
		}
		return b
	}
	if a == b {
		return a
	}
	if a.sort == SBool && a.IsConst() && b.IsConst() {
		if a.val != 0 && b.val == 0 {
			return c
		}
		if a.val == 0 && b.val != 0 {
			return p.Not(c)
		}
	}
	return p.mk("ite", a.sort, c, a, b)
}

func (p *termPool) Eq(a, b *Term) *Term {
	if a == b && a.sort != SFP64 {
		return p.tt
	}
	if a.IsConst() && b.IsConst() && a.sort != SFP64 {
		return p.Bool(a.val == b.val)
	}
	if a.sort == SFP64 {
		return p.mk("fp.eq", SBool, a, b)
	}
	if a.sort == SBool {
		if a.IsConst() {
			if a.val != 0 {
				return b
			}
			return p.Not(b)
		}
		if b.IsConst() {
			if b.val != 0 {
				return a
			}
			return p.Not(a)
		}
	}
	return p.mk("=", SBool, a, b)
}

// ---- constant folding for bit-vectors ----

func sext(v uint64, bits int) int64 {
	sh := uint(64 - bits)
	return int64(v<<sh) >> sh
}

// BVBin builds a binary bit-vector operation (same-sort operands).
func (p *termPool) BVBin(op string, a, b *Term) *Term {
	if a.sort != b.sort {
		panic(fmt.Sprintf("BVBin %s: sort mismatch %v %v", op, a.sort, b.sort))
	}
	bits := a.sort.Bits()
	if a.IsConst() && b.IsConst() {
		x, y := a.val, b.val
		var r uint64
		ok := true
		switch op {
		case "bvadd":
			r = x + y
		case "bvsub":
			r = x - y
		case "bvmul":
			r = x * y
		case "bvand":
			r = x & y
		case "bvor":
			r = x | y
		case "bvxor":
			r = x ^ y
		case "bvshl":
			if y >= uint64(bits) {
				r = 0
			} else {
				r = x << y
			}
		case "bvlshr":
			if y >= uint64(bits) {
				r = 0
			} else {
				r = x >> y
			}
		case "bvashr":
			if y >= uint64(bits) {
				y = uint64(bits - 1)
			}
			r = uint64(sext(x, bits) >> y)
		case "bvudiv":
			if y == 0 {
				ok = false
			} else {
				r = x / y
			}
		case "bvurem":
			if y == 0 {
				ok = false
			} else {
				r = x % y
			}
		case "bvsdiv":
			sx, sy := sext(x, bits), sext(y, bits)
			if sy == 0 {
				ok = false
			} else if sy == -1 {
				r = uint64(-sx)
			} else {
				r = uint64(sx / sy)
			}
		case "bvsrem":
			sx, sy := sext(x, bits), sext(y, bits)
			if sy == 0 {
				ok = false
			} else if sy == -1 {
				r = 0
			} else {
				r = uint64(sx % sy)
			}
		default:
			ok = false
		}
		if ok {
			return p.BV(r, a.sort)
		}
	}
	// identities
	switch op {
	case "bvadd", "bvor", "bvxor":
		if a.IsConst() && a.val == 0 {
			return b
		}
		if b.IsConst() && b.val == 0 {
			return a
		}
	case "bvsub", "bvshl", "bvlshr", "bvashr":
		if b.IsConst() && b.val == 0 {
			return a
		}
	case "bvand":
		if (a.IsConst() && a.val == 0) || (b.IsConst() && b.val == 0) {
			return p.BV(0, a.sort)
		}
		if a.IsConst() && a.val == mask(bits) {
			return b
		}
		if b.IsConst() && b.val == mask(bits) {
			return a
		}
	case "bvmul":
		if a.IsConst() && a.val == 1 {
			return b
		}
		if b.IsConst() && b.val == 1 {
			return a
		}
	}
	return p.mk(op, a.sort, a, b)
}

// BVCmp builds a comparison: bvult bvule bvugt bvuge bvslt bvsle bvsgt bvsge.
func (p *termPool) BVCmp(op string, a, b *Term) *Term {
	if a.IsConst() && b.IsConst() {
		bits := a.sort.Bits()
		x, y := a.val, b.val
		sx, sy := sext(x, bits), sext(y, bits)
		switch op {
		case "bvult":
			return p.Bool(x < y)
		case "bvule":
			return p.Bool(x <= y)
		case "bvugt":
			return p.Bool(x > y)
		case "bvuge":
			return p.Bool(x >= y)
		case "bvslt":
			return p.Bool(sx < sy)
		case "bvsle":
			return p.Bool(sx <= sy)
		case "bvsgt":
			return p.Bool(sx > sy)
		case "bvsge":
			return p.Bool(sx >= sy)
		}
	}
	return p.mk(op, SBool, a, b)
}

func (p *termPool) BVNot(a *Term) *Term {
	if a.IsConst() {
		return p.BV(^a.val, a.sort)
	}
	return p.mk("bvnot", a.sort, a)
}

func (p *termPool) BVNeg(a *Term) *Term {
	if a.IsConst() {
		return p.BV(-a.val, a.sort)
	}
	return p.mk("bvneg", a.sort, a)
}

// Resize converts a bit-vector to another width (sign- or zero-extending).
func (p *termPool) Resize(a *Term, to Sort, signed bool) *Term {
	from := a.sort.Bits()
	tb := to.Bits()
	if from == tb {
		return a
	}
	if a.IsConst() {
		if tb < from {
			return p.BV(a.val, to)
		}
		if signed {
			return p.BV(uint64(sext(a.val, from)), to)
		}
		return p.BV(a.val, to)
	}
	if tb < from {
		return p.mk(fmt.Sprintf("(_ extract %d 0)", tb-1), to, a)
	}
	if signed {
		return p.mk(fmt.Sprintf("(_ sign_extend %d)", tb-from), to, a)
	}
	return p.mk(fmt.Sprintf("(_ zero_extend %d)", tb-from), to, a)
}

// ---- rendering ----

func (t *Term) ref() string {
	switch t.op {
	case "var":
		return t.name
	case "const":
		switch t.sort {
		case SBool:
			if t.val != 0 {
				return "true"
			}
			return "false"
		case SFP64:
			return fmt.Sprintf("((_ to_fp 11 53) #x%016x)", t.val)
		}
		return fmt.Sprintf("#x%0*x", t.sort.Bits()/4, t.val)
	}
	return fmt.Sprintf("t%d", t.id)
}

// defs appends define-fun lines for every non-leaf term reachable from t
// that is not yet in defined, in dependency order.
func (t *Term) defs(defined map[int]bool, sb *strings.Builder) {
	if t.op == "var" || t.op == "const" || defined[t.id] {
		return
	}
	// iterative post-order to avoid deep recursion on long chains
	type item struct {
		t    *Term
		next int
	}
	stack := []item{{t, 0}}
	for len(stack) > 0 {
		top := &stack[len(stack)-1]
		if top.next < len(top.t.args) {
			a := top.t.args[top.next]
			top.next++
			if a.op != "var" && a.op != "const" && !defined[a.id] {
				stack = append(stack, item{a, 0})
			}
			continue
		}
		n := top.t
		stack = stack[:len(stack)-1]
		if defined[n.id] {
			continue
		}
		defined[n.id] = true
		fmt.Fprintf(sb, "(define-fun t%d () %s (%s", n.id, n.sort.SMT(), n.op)
		for _, a := range n.args {
			sb.WriteByte(' ')
			sb.WriteString(a.ref())
		}
		sb.WriteString("))\n")
	}
}

// String renders the term as a nested expression (debugging only).
func (t *Term) String() string {
	if t.op == "var" || t.op == "const" {
		return t.ref()
	}
	var sb strings.Builder
	sb.WriteByte('(')
	sb.WriteString(t.op)
	for _, a := range t.args {
		sb.WriteByte(' ')
		sb.WriteString(a.String())
	}
	sb.WriteByte(')')
	s := sb.String()
	if len(s) > 400 {
		return s[:400] + "…"
	}
	return s
}
