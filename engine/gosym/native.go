package gosym

// Native pass-through: pure library functions executed by the engine's own
// Go runtime on *concrete* arguments (regexp, ...), and time intrinsics.

import (
	"fmt"
	"net"
	"go/token"
	"go/types"
	"reflect"
	"regexp"
	"strings"

	"golang.org/x/tools/go/ssa"
)

// native wraps a host Go object handed to the target program as an opaque handle.
type native struct{ v any }

type nativeMethod struct {
	recv native
	name string
	sig  *types.Signature
}

func (m *nativeMethod) exists() bool {
	return reflect.ValueOf(m.recv.v).MethodByName(m.name).IsValid()
}

func (i *interpreter) callNativeMethod(fr *frame, m *nativeMethod, args []value) value {
	rv := reflect.ValueOf(m.recv.v).MethodByName(m.name)
	if !rv.IsValid() {
		panic(unsupported(fmt.Sprintf("native method %T.%s", m.recv.v, m.name)))
	}
	return i.callReflect(fr, rv, args, fmt.Sprintf("%T.%s", m.recv.v, m.name))
}

func (i *interpreter) callReflect(fr *frame, rv reflect.Value, args []value, name string) value {
	ft := rv.Type()
	in := make([]reflect.Value, 0, len(args))
	for k, a := range args {
		var want reflect.Type
		if ft.IsVariadic() && k >= ft.NumIn()-1 {
			want = ft.In(ft.NumIn() - 1)
			if k == ft.NumIn()-1 {
				// SSA passes the variadic tail as one slice
				sl, ok := a.([]value)
				if !ok {
					panic(unsupported("native variadic call " + name))
				}
				for _, e := range sl {
					in = append(in, i.toReflect(fr, e, want.Elem(), name))
				}
				continue
			}
		} else {
			want = ft.In(k)
		}
		in = append(in, i.toReflect(fr, a, want, name))
	}
	out := rv.Call(in)
	switch len(out) {
	case 0:
		return nil
	case 1:
		return i.fromReflect(out[0], name)
	}
	t := make(tuple, len(out))
	for k, o := range out {
		t[k] = i.fromReflect(o, name)
	}
	return t
}

func (i *interpreter) toReflect(fr *frame, a value, want reflect.Type, name string) reflect.Value {
	if s, ok := a.(sv); ok {
		_ = s
		panic(unsupported("symbolic argument to native function " + name))
	}
	switch want.Kind() {
	case reflect.String:
		return reflect.ValueOf(a.(string)).Convert(want)
	case reflect.Bool:
		return reflect.ValueOf(a.(bool))
	case reflect.Int, reflect.Int8, reflect.Int16, reflect.Int32, reflect.Int64:
		return reflect.ValueOf(asInt64(a)).Convert(want)
	case reflect.Uint, reflect.Uint8, reflect.Uint16, reflect.Uint32, reflect.Uint64:
		return reflect.ValueOf(uint64(asInt64(a))).Convert(want)
	case reflect.Slice:
		sl := a.([]value)
		out := reflect.MakeSlice(want, len(sl), len(sl))
		for k, e := range sl {
			out.Index(k).Set(i.toReflect(fr, e, want.Elem(), name))
		}
		if sl == nil {
			return reflect.Zero(want)
		}
		return out
	case reflect.Interface:
		if it, ok := a.(iface); ok {
			if it.t == nil {
				return reflect.Zero(want)
			}
			x := i.toNativeArg(fr, it)
			return reflect.ValueOf(x)
		}
	case reflect.Ptr, reflect.Struct:
		if n, ok := a.(native); ok {
			return reflect.ValueOf(n.v)
		}
	}
	panic(unsupported(fmt.Sprintf("argument %T -> %v for native function %s", a, want, name)))
}

func (i *interpreter) fromReflect(o reflect.Value, name string) value {
	switch o.Kind() {
	case reflect.String:
		return o.String()
	case reflect.Bool:
		return o.Bool()
	case reflect.Int:
		return int(o.Int())
	case reflect.Int64:
		return o.Int()
	case reflect.Int32:
		return int32(o.Int())
	case reflect.Uint8:
		return uint8(o.Uint())
	case reflect.Uint64:
		return o.Uint()
	case reflect.Slice:
		if o.IsNil() {
			return []value(nil)
		}
		out := make([]value, o.Len())
		for k := range out {
			out[k] = i.fromReflect(o.Index(k), name)
		}
		return out
	case reflect.Interface:
		if o.IsNil() {
			return iface{}
		}
		if e, ok := o.Interface().(error); ok {
			return i.newError(e.Error())
		}
	case reflect.Ptr:
		return native{o.Interface()}
	}
	panic(unsupported(fmt.Sprintf("result %v of native function %s", o.Type(), name)))
}

// ipnetValue builds a *net.IPNet interpreter value.
func (i *interpreter) ipnetValue(n *net.IPNet) value {
	pkg := i.prog.ImportedPackage("net")
	if pkg == nil {
		panic(unsupported("net package not loaded"))
	}
	t := pkg.Type("IPNet").Type()
	cell := zero(t)
	st := cell.(structure)
	st[0] = fromBytes([]byte(n.IP))
	st[1] = fromBytes([]byte(n.Mask))
	return &cell
}

func init() {
	register(map[string]externalFn{
		"net.ParseIP": func(fr *frame, a []value) value {
			return fromBytes([]byte(net.ParseIP(a[0].(string))))
		},
		// net.IP.String goes through net/netip (package-level tables, unique.Handle):
		// computed natively for concrete addresses
		"(net.IP).String": func(fr *frame, a []value) value {
			bs, ok := a[0].([]value)
			if !ok {
				return "<nil>"
			}
			ip := make(net.IP, len(bs))
			for k, b := range bs {
				c, isConc := b.(uint8)
				if !isConc {
					panic(unsupported("net.IP.String of a symbolic address"))
				}
				ip[k] = c
			}
			return ip.String()
		},
		"net.ParseCIDR": func(fr *frame, a []value) value {
			ip, n, err := net.ParseCIDR(a[0].(string))
			if err != nil {
				return tuple{[]value(nil), (*value)(nil), fr.i.newError(err.Error())}
			}
			return tuple{fromBytes([]byte(ip)), fr.i.ipnetValue(n), iface{}}
		},
		"net.SplitHostPort": func(fr *frame, a []value) value {
			h, p, err := net.SplitHostPort(a[0].(string))
			if err != nil {
				return tuple{h, p, fr.i.newError(err.Error())}
			}
			return tuple{h, p, iface{}}
		},
		"net.JoinHostPort": func(fr *frame, a []value) value {
			return net.JoinHostPort(a[0].(string), a[1].(string))
		},
	})
}

func stripTypeArgs(s string) string {
	if !strings.Contains(s, "[") {
		return s
	}
	var sb strings.Builder
	depth := 0
	for _, r := range s {
		switch r {
		case '[':
			depth++
		case ']':
			depth--
		default:
			if depth == 0 {
				sb.WriteRune(r)
			}
		}
	}
	return sb.String()
}

func init() {
	nativeFuncs := map[string]any{
		"regexp.MustCompile": regexp.MustCompile,
		"regexp.Compile":     regexp.Compile,
		"regexp.QuoteMeta":   regexp.QuoteMeta,
		"regexp.MatchString": regexp.MatchString,
	}
	for name, f := range nativeFuncs {
		name, rv := name, reflect.ValueOf(f)
		externals[name] = func(fr *frame, args []value) value {
			return fr.i.callReflect(fr, rv, args, name)
		}
	}
	// methods on *regexp.Regexp reached through static calls
	for _, m := range []string{"MatchString", "Match", "FindStringSubmatch", "FindString", "ReplaceAllString", "String", "FindAllString", "FindStringIndex", "SubexpNames", "NumSubexp"} {
		m := m
		externals["(*regexp.Regexp)."+m] = func(fr *frame, args []value) value {
			n, ok := args[0].(native)
			if !ok {
				panic(unsupported("regexp method on non-native receiver"))
			}
			return fr.i.callNativeMethod(fr, &nativeMethod{recv: n, name: m}, args[1:])
		}
	}
}

// ---- time ----

// time.Time is struct{wall uint64; ext int64; loc *Location}. The virtual
// clock counts nanoseconds since an arbitrary epoch; Now() returns a Time
// with a monotonic reading so that Sub/Since are pure integer arithmetic
// interpreted from the real source.

const clockEpochSec = 1_700_000_000 // wall-clock seconds of virtual time 0

func (i *interpreter) timeNow() value {
	ns := i.sched.clock
	// hasMonotonic=1<<63; wall = 1<<63 | (sec-wallToInternal... ) use the
	// non-monotonic representation: wall = nsec, ext = seconds since year 1.
	const unixToInternal = (1969*365 + 1969/4 - 1969/100 + 1969/400) * 86400
	sec := int64(clockEpochSec) + ns/1_000_000_000 + unixToInternal
	nsec := ns % 1_000_000_000
	return structure{uint64(nsec), sec, (*value)(nil)}
}

type timerState struct {
	g       *gor
	stopped bool
	fired   bool
	ch      *gchan
	f       value
	period  int64
}

func (i *interpreter) startTimer(fr *frame, d int64, ts *timerState) {
	s := i.sched
	if d < 0 {
		d = 0
	}
	deadline := s.clock + d
	first := true
	body := func() {
		for {
			if !first {
				s.sleepUntil(deadline, "timer")
			}
			first = false
			if ts.stopped {
				return
			}
			ts.fired = true
			if ts.ch != nil {
				// non-blocking send of the current time
				if len(ts.ch.buf) < ts.ch.cap || hasWaiter(ts.ch.recvq) {
					s.trySend(ts.ch, i.timeNow())
				}
			}
			if ts.f != nil {
				i.call(nil, token.NoPos, ts.f, nil)
			}
			if ts.period <= 0 {
				return
			}
			deadline = s.clock + ts.period
			ts.fired = false
		}
	}
	// The timer goroutine is born asleep: the scheduler fires it.
	s.timerSeq++
	g := &gor{id: len(s.gs), wake: make(chan struct{}, 1), state: gBlocked, timer: true, deadline: deadline, seq: s.timerSeq, name: "timer", what: "timer"}
	s.gs = append(s.gs, g)
	s.started++
	ts.g = g
	go s.goroutineBody(g, body, false)
}

func init() {
	timers := func(i *interpreter) map[*value]*timerState {
		if i.timers == nil {
			i.timers = map[*value]*timerState{}
		}
		return i.timers
	}
	newTimerValue := func(fr *frame, ts *timerState, fn *ssa.Function) value {
		// *time.Timer{C <-chan Time, r runtimeTimer...}: allocate the real struct type, set C
		res := fn.Signature.Results().At(0).Type() // *time.Timer / *time.Ticker
		cell := zero(mustDeref(res))
		st := cell.(structure)
		if ts.ch != nil {
			st[0] = ts.ch
		} else {
			st[0] = (*gchan)(nil)
		}
		p := &cell
		timers(fr.i)[p] = ts
		return p
	}
	register(map[string]externalFn{
		"time.Now": func(fr *frame, a []value) value { return fr.i.timeNow() },
		"time.Sleep": func(fr *frame, a []value) value {
			i := fr.i
			d := i.intArg(a[0])
			if d > 0 {
				i.sched.sleepUntil(i.sched.clock+d, "time.Sleep")
			} else {
				i.sched.yield("sleep0")
			}
			return nil
		},
		"time.AfterFunc": func(fr *frame, a []value) value {
			i := fr.i
			ts := &timerState{f: a[1]}
			v := newTimerValue(fr, ts, fr.fn)
			i.startTimer(fr, i.intArg(a[0]), ts)
			return v
		},
		"time.NewTimer": func(fr *frame, a []value) value {
			i := fr.i
			ts := &timerState{ch: i.sched.makeChan(1)}
			v := newTimerValue(fr, ts, fr.fn)
			i.startTimer(fr, i.intArg(a[0]), ts)
			return v
		},
		"time.After": func(fr *frame, a []value) value {
			i := fr.i
			ts := &timerState{ch: i.sched.makeChan(1)}
			i.startTimer(fr, i.intArg(a[0]), ts)
			return ts.ch
		},
		"time.NewTicker": func(fr *frame, a []value) value {
			i := fr.i
			d := i.intArg(a[0])
			if d <= 0 {
				panic(targetPanic{iface{types.Typ[types.String], "non-positive interval for NewTicker"}})
			}
			ts := &timerState{ch: i.sched.makeChan(1), period: d}
			v := newTimerValue(fr, ts, fr.fn)
			i.startTimer(fr, d, ts)
			return v
		},
		"time.Tick": func(fr *frame, a []value) value {
			i := fr.i
			d := i.intArg(a[0])
			ts := &timerState{ch: i.sched.makeChan(1), period: d}
			i.startTimer(fr, d, ts)
			return ts.ch
		},
		"(*time.Timer).Stop": func(fr *frame, a []value) value {
			ts := timers(fr.i)[a[0].(*value)]
			if ts == nil {
				panic(targetPanic{iface{types.Typ[types.String], "time: Stop called on uninitialized Timer"}})
			}
			fr.i.sched.yield("timer.stop")
			was := !ts.stopped && !ts.fired
			ts.stopped = true
			if ts.g != nil && ts.g.state == gBlocked && ts.g.timer {
				// let the timer goroutine exit promptly: make it runnable, it sees stopped
				ts.g.timer = false
				ts.g.state = gRunnable
			}
			return was
		},
		"(*time.Timer).Reset": func(fr *frame, a []value) value {
			i := fr.i
			p := a[0].(*value)
			ts := timers(i)[p]
			if ts == nil {
				panic(targetPanic{iface{types.Typ[types.String], "time: Reset called on uninitialized Timer"}})
			}
			was := !ts.stopped && !ts.fired
			ts.stopped = true
			if ts.g != nil && ts.g.state == gBlocked && ts.g.timer {
				ts.g.timer = false
				ts.g.state = gRunnable
			}
			nts := &timerState{f: ts.f, ch: ts.ch}
			timers(i)[p] = nts
			// Go 1.23+: Reset drains a stale value from the channel
			if nts.ch != nil {
				nts.ch.buf = nil
			}
			i.startTimer(fr, i.intArg(a[1]), nts)
			return was
		},
		"(*time.Ticker).Stop": func(fr *frame, a []value) value {
			ts := timers(fr.i)[a[0].(*value)]
			if ts != nil {
				ts.stopped = true
				if ts.g != nil && ts.g.state == gBlocked && ts.g.timer {
					ts.g.timer = false
					ts.g.state = gRunnable
				}
			}
			return nil
		},
		"(*time.Ticker).Reset": func(fr *frame, a []value) value {
			i := fr.i
			p := a[0].(*value)
			ts := timers(i)[p]
			if ts != nil {
				ts.stopped = true
				if ts.g != nil && ts.g.state == gBlocked && ts.g.timer {
					ts.g.timer = false
					ts.g.state = gRunnable
				}
				d := i.intArg(a[1])
				nts := &timerState{ch: ts.ch, period: d}
				timers(i)[p] = nts
				i.startTimer(fr, d, nts)
			}
			return nil
		},
		"time.runtimeNano": func(fr *frame, a []value) value { return fr.i.sched.clock },
		"time.now": func(fr *frame, a []value) value {
			ns := fr.i.sched.clock
			return tuple{int64(clockEpochSec) + ns/1_000_000_000, int32(ns % 1_000_000_000), ns}
		},
		"(time.Time).String":  func(fr *frame, a []value) value { return "<time>" },
		"(time.Time).Format":  func(fr *frame, a []value) value { return "<time>" },
		"(time.Duration).String": func(fr *frame, a []value) value {
			return fmt.Sprintf("%dns", fr.i.intArg(a[0]))
		},
	})
}
