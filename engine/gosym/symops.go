package gosym

// Operators over mixed concrete/symbolic values.

import (
	"fmt"
	"unsafe"
	"go/token"
	"go/types"
	"math"
	"sort"

	"golang.org/x/tools/go/ssa"
)

// runtimePanic is a Go run-time panic of the *target* program (nil
// dereference, index out of range, division by zero, ...).
type runtimePanic struct{ msg string }

func (p runtimePanic) String() string { return "runtime error: " + p.msg }

// unsupportedPanic aborts the current path as "unsupported": the engine met a
// construct it does not model. It is never a verdict about the target.
type unsupportedPanic struct{ msg string }

func unsupported(msg string) unsupportedPanic { return unsupportedPanic{msg} }

func mustDeref(t types.Type) types.Type {
	if p, ok := t.Underlying().(*types.Pointer); ok {
		return p.Elem()
	}
	// core type of a type parameter never reaches the interpreter (generics are instantiated)
	panic(fmt.Sprintf("mustDeref: %v is not a pointer", t))
}

func isIntegerKind(k types.BasicKind) bool {
	switch k {
	case types.Int, types.Int8, types.Int16, types.Int32, types.Int64,
		types.Uint, types.Uint8, types.Uint16, types.Uint32, types.Uint64, types.Uintptr:
		return true
	}
	return false
}

// binop implements all binary operators over concrete or symbolic operands.
func (i *interpreter) binop(op token.Token, t types.Type, x, y value) value {
	if op == token.EQL {
		return i.equalsV(t, x, y)
	}
	if op == token.NEQ {
		return i.notV(i.equalsV(t, x, y))
	}
	_, xs := x.(sv)
	_, ys := y.(sv)
	if !xs && !ys {
		if op == token.QUO || op == token.REM {
			if k, ok := kindOf(y); ok && isIntegerKind(k) && toBits(y) == 0 {
				panic(runtimePanic{"integer divide by zero"})
			}
		}
		if op == token.SHL || op == token.SHR {
			if k, ok := kindOf(y); ok && kindSigned(k) && asInt64(y) < 0 {
				panic(runtimePanic{"negative shift amount"})
			}
		}
		return binopConcrete(op, t, x, y)
	}
	p := i.pool
	kx, _ := kindOf(x)
	tx := i.term(x)
	if op == token.SHL || op == token.SHR {
		ky, _ := kindOf(y)
		ty := i.term(y)
		if kindSigned(ky) {
			neg := p.BVCmp("bvslt", ty, p.BV(0, ty.sort))
			if i.branch(neg) {
				panic(runtimePanic{"negative shift amount"})
			}
		}
		// bring the shift count to x's width, saturating large counts
		bits := kindBits(kx)
		var cnt *Term
		if ty.sort.Bits() > bits {
			big := p.BVCmp("bvuge", ty, p.BV(uint64(bits), ty.sort))
			cnt = p.Ite(big, p.BV(uint64(bits), tx.sort), p.Resize(ty, tx.sort, false))
		} else {
			cnt = p.Resize(ty, tx.sort, false)
		}
		// SMT-LIB shifts already yield 0 (or sign fill) for counts >= width.
		switch {
		case op == token.SHL:
			return mkval(kx, p.BVBin("bvshl", tx, cnt))
		case kindSigned(kx):
			return mkval(kx, p.BVBin("bvashr", tx, cnt))
		default:
			return mkval(kx, p.BVBin("bvlshr", tx, cnt))
		}
	}
	ty := i.term(y)
	if tx.sort != ty.sort {
		panic(fmt.Sprintf("binop %s: operand sorts differ: %T %T", op, x, y))
	}
	if kx == types.Float64 {
		rm := "RNE"
		switch op {
		case token.ADD:
			return sv{kx, p.mk("fp.add", SFP64, p.rm(rm), tx, ty)}
		case token.SUB:
			return sv{kx, p.mk("fp.sub", SFP64, p.rm(rm), tx, ty)}
		case token.MUL:
			return sv{kx, p.mk("fp.mul", SFP64, p.rm(rm), tx, ty)}
		case token.QUO:
			return sv{kx, p.mk("fp.div", SFP64, p.rm(rm), tx, ty)}
		case token.LSS:
			return mkval(types.Bool, p.mk("fp.lt", SBool, tx, ty))
		case token.LEQ:
			return mkval(types.Bool, p.mk("fp.leq", SBool, tx, ty))
		case token.GTR:
			return mkval(types.Bool, p.mk("fp.gt", SBool, tx, ty))
		case token.GEQ:
			return mkval(types.Bool, p.mk("fp.geq", SBool, tx, ty))
		}
		panic(unsupported(fmt.Sprintf("float binop %s", op)))
	}
	if kx == types.Bool {
		switch op {
		case token.AND, token.LAND:
			return mkval(types.Bool, p.And(tx, ty))
		case token.OR, token.LOR:
			return mkval(types.Bool, p.Or(tx, ty))
		}
		panic(unsupported(fmt.Sprintf("bool binop %s", op)))
	}
	signed := kindSigned(kx)
	switch op {
	case token.ADD:
		return mkval(kx, p.BVBin("bvadd", tx, ty))
	case token.SUB:
		return mkval(kx, p.BVBin("bvsub", tx, ty))
	case token.MUL:
		return mkval(kx, p.BVBin("bvmul", tx, ty))
	case token.QUO, token.REM:
		zero := p.Eq(ty, p.BV(0, ty.sort))
		if i.branch(zero) {
			panic(runtimePanic{"integer divide by zero"})
		}
		if signed {
			// SMT bvsdiv/bvsrem agree with Go (truncation toward zero; MinInt / -1 wraps).
			if op == token.QUO {
				return mkval(kx, p.BVBin("bvsdiv", tx, ty))
			}
			return mkval(kx, p.BVBin("bvsrem", tx, ty))
		}
		if op == token.QUO {
			return mkval(kx, p.BVBin("bvudiv", tx, ty))
		}
		return mkval(kx, p.BVBin("bvurem", tx, ty))
	case token.AND:
		return mkval(kx, p.BVBin("bvand", tx, ty))
	case token.OR:
		return mkval(kx, p.BVBin("bvor", tx, ty))
	case token.XOR:
		return mkval(kx, p.BVBin("bvxor", tx, ty))
	case token.AND_NOT:
		return mkval(kx, p.BVBin("bvand", tx, p.BVNot(ty)))
	case token.LSS:
		if signed {
			return mkval(types.Bool, p.BVCmp("bvslt", tx, ty))
		}
		return mkval(types.Bool, p.BVCmp("bvult", tx, ty))
	case token.LEQ:
		if signed {
			return mkval(types.Bool, p.BVCmp("bvsle", tx, ty))
		}
		return mkval(types.Bool, p.BVCmp("bvule", tx, ty))
	case token.GTR:
		if signed {
			return mkval(types.Bool, p.BVCmp("bvsgt", tx, ty))
		}
		return mkval(types.Bool, p.BVCmp("bvugt", tx, ty))
	case token.GEQ:
		if signed {
			return mkval(types.Bool, p.BVCmp("bvsge", tx, ty))
		}
		return mkval(types.Bool, p.BVCmp("bvuge", tx, ty))
	}
	panic(fmt.Sprintf("invalid symbolic binary op: %T %s %T", x, op, y))
}

func (p *termPool) rm(name string) *Term {
	return &Term{op: "var", sort: SBool, name: name, id: p.nid()} // rendered by name only
}

func (i *interpreter) notV(x value) value {
	switch x := x.(type) {
	case bool:
		return !x
	case sv:
		return mkval(types.Bool, i.pool.Not(x.t))
	}
	panic(fmt.Sprintf("notV(%T)", x))
}

func (i *interpreter) andV(x, y value) value {
	if xb, ok := x.(bool); ok {
		if !xb {
			return false
		}
		return y
	}
	if yb, ok := y.(bool); ok {
		if !yb {
			return false
		}
		return x
	}
	return mkval(types.Bool, i.pool.And(x.(sv).t, y.(sv).t))
}

func (i *interpreter) orV(x, y value) value {
	return i.notV(i.andV(i.notV(x), i.notV(y)))
}

// equalsV returns x == y (bool or symbolic bool) under Go's equivalence for type t.
func (i *interpreter) equalsV(t types.Type, x, y value) value {
	if t != nil {
		switch t.Underlying().(type) {
		case *types.Map, *types.Signature, *types.Slice:
			return eqnilRef(t, x, y)
		}
	}
	switch x := x.(type) {
	case sv:
		return mkval(types.Bool, i.pool.Eq(x.t, i.term(y)))
	case bool, int, int8, int16, int32, int64, uint, uint8, uint16, uint32, uint64, uintptr, float64:
		if ys, ok := y.(sv); ok {
			return mkval(types.Bool, i.pool.Eq(i.term(x), ys.t))
		}
		return x == y
	case float32, complex64, complex128, string:
		return x == y
	case *value:
		return x == y.(*value)
	case *gchan:
		return x == y.(*gchan)
	case uptr:
		yu := y.(uptr)
		if x.v == nil || yu.v == nil {
			return x.v == nil && yu.v == nil
		}
		return x.v == yu.v
	case structure:
		ys := y.(structure)
		tStruct := t.Underlying().(*types.Struct)
		var acc value = true
		for k, n := 0, tStruct.NumFields(); k < n; k++ {
			f := tStruct.Field(k)
			if f.Name() == "_" {
				continue
			}
			acc = i.andV(acc, i.equalsV(f.Type(), x[k], ys[k]))
			if b, ok := acc.(bool); ok && !b {
				return false
			}
		}
		return acc
	case array:
		ya := y.(array)
		tElt := t.Underlying().(*types.Array).Elem()
		var acc value = true
		for k := range x {
			acc = i.andV(acc, i.equalsV(tElt, x[k], ya[k]))
			if b, ok := acc.(bool); ok && !b {
				return false
			}
		}
		return acc
	case iface:
		yi := y.(iface)
		if !sameType(x.t, yi.t) {
			return false
		}
		if x.t == nil {
			return true
		}
		if !types.Comparable(x.t) {
			panic(runtimePanic{"comparing uncomparable type " + x.t.String()})
		}
		return i.equalsV(x.t, x.v, yi.v)
	case *ssa.Function, *closure, []value, *omap:
		return eqnilRef(t, x, y)
	}
	panic(fmt.Sprintf("comparing uncomparable type %v (%T)", t, x))
}

// nil-tolerant variant of types.Identical.
func sameType(x, y types.Type) bool {
	if x == nil {
		return y == nil
	}
	return y != nil && types.Identical(x, y)
}

func isNilRef(x value) bool {
	switch x := x.(type) {
	case *omap:
		return x == nil
	case *ssa.Function:
		return x == nil
	case *closure:
		return x == nil
	case []value:
		return x == nil
	case *ssa.Builtin:
		return x == nil
	}
	panic(fmt.Sprintf("isNilRef(%T)", x))
}

// eqnilRef compares maps, funcs, slices: one side must be nil.
func eqnilRef(t types.Type, x, y value) bool {
	return isNilRef(x) == isNilRef(y) && isNilRef(x)
}

// equalsConcrete is equalsV for contexts that need a Go bool.
func (i *interpreter) equalsB(t types.Type, x, y value) bool {
	return i.truth(i.equalsV(t, x, y))
}

// truth turns a (possibly symbolic) bool into a Go bool by forking.
func (i *interpreter) truth(v value) bool {
	switch v := v.(type) {
	case bool:
		return v
	case sv:
		return i.branch(v.t)
	}
	panic(fmt.Sprintf("truth(%T)", v))
}

func (i *interpreter) unop(fr *frame, instr *ssa.UnOp, x value) value {
	switch instr.Op {
	case token.ARROW: // receive
		v, ok := i.sched.recv(x.(*gchan))
		if !ok {
			v = zero(instr.X.Type().Underlying().(*types.Chan).Elem())
		}
		if instr.CommaOk {
			v = tuple{v, ok}
		}
		return v
	case token.SUB:
		if s, ok := x.(sv); ok {
			if s.k == types.Float64 {
				return sv{s.k, i.pool.mk("fp.neg", SFP64, s.t)}
			}
			return mkval(s.k, i.pool.BVNeg(s.t))
		}
		switch x := x.(type) {
		case int:
			return -x
		case int8:
			return -x
		case int16:
			return -x
		case int32:
			return -x
		case int64:
			return -x
		case uint:
			return -x
		case uint8:
			return -x
		case uint16:
			return -x
		case uint32:
			return -x
		case uint64:
			return -x
		case uintptr:
			return -x
		case float32:
			return -x
		case float64:
			return -x
		case complex64:
			return -x
		case complex128:
			return -x
		}
	case token.MUL:
		p := x.(*value)
		if p == nil {
			panic(runtimePanic{"invalid memory address or nil pointer dereference"})
		}
		return load(mustDeref(instr.X.Type()), p)
	case token.NOT:
		return i.notV(x)
	case token.XOR:
		if s, ok := x.(sv); ok {
			return mkval(s.k, i.pool.BVNot(s.t))
		}
		switch x := x.(type) {
		case int:
			return ^x
		case int8:
			return ^x
		case int16:
			return ^x
		case int32:
			return ^x
		case int64:
			return ^x
		case uint:
			return ^x
		case uint8:
			return ^x
		case uint16:
			return ^x
		case uint32:
			return ^x
		case uint64:
			return ^x
		case uintptr:
			return ^x
		}
	}
	panic(fmt.Sprintf("invalid unary op %s %T", instr.Op, x))
}

// conv converts x of type t_src to t_dst.
func (i *interpreter) conv(t_dst, t_src types.Type, x value) value {
	if s, ok := x.(sv); ok {
		bd, ok := t_dst.Underlying().(*types.Basic)
		if !ok {
			panic(unsupported(fmt.Sprintf("conversion of symbolic %v to %v", t_src, t_dst)))
		}
		kd := bd.Kind()
		if kd == types.String {
			return convConcrete(t_dst, t_src, i.concretize(s))
		}
		if kd == types.Float32 {
			panic(unsupported("symbolic float32"))
		}
		p := i.pool
		switch {
		case s.k == types.Float64 && kd == types.Float64:
			return s
		case s.k == types.Float64: // float -> int (truncation toward zero)
			bits := kindBits(kd)
			op := fmt.Sprintf("(_ fp.to_ubv %d)", bits)
			if kindSigned(kd) {
				op = fmt.Sprintf("(_ fp.to_sbv %d)", bits)
			}
			return sv{kd, p.mk(op, kindSort(kd), p.rm("RTZ"), s.t)}
		case kd == types.Float64: // int -> float
			op := "(_ to_fp_unsigned 11 53)"
			if kindSigned(s.k) {
				op = "(_ to_fp 11 53)"
			}
			return sv{kd, p.mk(op, SFP64, p.rm("RNE"), s.t)}
		case s.k == types.Bool:
			return s
		default:
			return mkval(kd, p.Resize(s.t, kindSort(kd), kindSigned(s.k)))
		}
	}
	// []byte with symbolic elements -> string: concretize each byte
	if sl, ok := x.([]value); ok {
		if _, isStr := t_dst.Underlying().(*types.Basic); isStr {
			anySym := false
			for _, e := range sl {
				if isSym(e) {
					anySym = true
					break
				}
			}
			if anySym {
				c := make([]value, len(sl))
				for k, e := range sl {
					if s, ok := e.(sv); ok {
						c[k] = i.concretize(s)
					} else {
						c[k] = e
					}
				}
				x = c
			}
		}
	}
	if f, ok := x.(float64); ok {
		// out-of-range float->int conversions are implementation-defined in Go;
		// the native conversion of the host is used (same platform as the target build).
		_ = f
	}
	return convConcrete(t_dst, t_src, x)
}

// typeAssert checks whether dynamic type of itf is instr.AssertedType.
func typeAssert(i *interpreter, instr *ssa.TypeAssert, itf iface) value {
	var v value
	err := ""
	if itf.t == nil {
		err = fmt.Sprintf("interface conversion: interface is nil, not %s", instr.AssertedType)
	} else if idst, ok := instr.AssertedType.Underlying().(*types.Interface); ok {
		v = itf
		err = checkInterface(i, idst, itf)
	} else if types.Identical(itf.t, instr.AssertedType) {
		v = itf.v // extract value
	} else {
		err = fmt.Sprintf("interface conversion: interface is %s, not %s", itf.t, instr.AssertedType)
	}
	if err != "" {
		if !instr.CommaOk {
			panic(runtimePanic{err})
		}
		return tuple{zero(instr.AssertedType), false}
	}
	if instr.CommaOk {
		return tuple{v, true}
	}
	return v
}

func checkInterface(i *interpreter, itype *types.Interface, x iface) string {
	if meth, _ := types.MissingMethod(x.t, itype, true); meth != nil {
		return fmt.Sprintf("interface conversion: %v is not %v: missing method %s",
			x.t, itype, meth.Name())
	}
	return "" // ok
}

// intArg returns a concrete int64 for an integer operand that must be concrete
// (lengths, slice bounds); a symbolic operand is concretised by forking.
func (i *interpreter) intArg(x value) int64 {
	if s, ok := x.(sv); ok {
		x = i.concretize(s)
	}
	return asInt64(x)
}

// sliceOp returns x[lo:hi:max].  Any of lo, hi and max may be nil.
func (i *interpreter) sliceOp(x, lo, hi, max value) value {
	var Len, Cap int
	switch x := x.(type) {
	case string:
		Len = len(x)
		Cap = len(x)
	case []value:
		Len = len(x)
		Cap = cap(x)
	case *value: // *array
		if x == nil {
			panic(runtimePanic{"invalid memory address or nil pointer dereference"})
		}
		a := (*x).(array)
		Len = len(a)
		Cap = cap(a)
	}
	l := int64(0)
	if lo != nil {
		l = i.intArg(lo)
	}
	h := int64(Len)
	if hi != nil {
		h = i.intArg(hi)
	}
	m := int64(Cap)
	if max != nil {
		m = i.intArg(max)
	}
	if _, isStr := x.(string); isStr {
		if l < 0 || h < l || h > int64(Len) {
			panic(runtimePanic{fmt.Sprintf("slice bounds out of range [%d:%d] with length %d", l, h, Len)})
		}
	} else if l < 0 || h < l || m < h || m > int64(Cap) {
		panic(runtimePanic{fmt.Sprintf("slice bounds out of range [%d:%d:%d] with capacity %d", l, h, m, Cap)})
	}
	switch x := x.(type) {
	case string:
		return x[l:h]
	case []value:
		if x == nil && h == 0 {
			return []value(nil)
		}
		return x[l:h:m]
	case *value: // *array
		a := (*x).(array)
		return []value(a)[l:h:m]
	}
	panic(fmt.Sprintf("slice: unexpected X type: %T", x))
}

// lookup returns x[idx] where x is a map.
func (i *interpreter) lookup(instr *ssa.Lookup, x, idx value) value {
	switch x := x.(type) {
	case *omap:
		if s, ok := idx.(sv); ok {
			idx = i.concretize(s)
		}
		v, ok := x.lookup(idx)
		if !ok {
			v = zero(instr.X.Type().Underlying().(*types.Map).Elem())
		}
		if instr.CommaOk {
			v = tuple{v, ok}
		}
		return v
	case string:
		k := i.intArg(idx)
		if k < 0 || k >= int64(len(x)) {
			panic(runtimePanic{fmt.Sprintf("index out of range [%d] with length %d", k, len(x))})
		}
		return x[k]
	}
	panic(fmt.Sprintf("unexpected x type in Lookup: %T", x))
}

func rangeIter(x value, t types.Type) iter {
	switch x := x.(type) {
	case *omap:
		return &omapIter{m: x}
	case string:
		return &stringIter{s: x}
	}
	panic(fmt.Sprintf("cannot range over %T", x))
}

// index returns the element address for a slice/array index, forking on a
// symbolic index (bounds violation is a reachable run-time panic).
func (i *interpreter) checkIndex(idx value, n int) int {
	if s, ok := idx.(sv); ok {
		p := i.pool
		var inb *Term
		nn := p.BV(uint64(n), s.t.sort)
		if kindSigned(s.k) {
			inb = p.And(p.BVCmp("bvsge", s.t, p.BV(0, s.t.sort)), p.BVCmp("bvslt", s.t, nn))
		} else {
			inb = p.BVCmp("bvult", s.t, nn)
		}
		if !i.branch(inb) {
			panic(runtimePanic{fmt.Sprintf("index out of range [symbolic] with length %d", n)})
		}
		idx = i.concretize(s)
	}
	k := asInt64(idx)
	if k < 0 || k >= int64(n) {
		panic(runtimePanic{fmt.Sprintf("index out of range [%d] with length %d", k, n)})
	}
	return int(k)
}

func (i *interpreter) callBuiltin(caller *frame, callpos token.Pos, fn *ssa.Builtin, args []value) value {
	switch fn.Name() {
	case "append":
		if len(args) == 1 {
			return args[0]
		}
		if s, ok := args[1].(string); ok {
			arg0 := args[0].([]value)
			for k := 0; k < len(s); k++ {
				arg0 = append(arg0, s[k])
			}
			return arg0
		}
		a0 := args[0].([]value)
		a1 := args[1].([]value)
		if len(a1) == 0 {
			return a0
		}
		return append(a0, a1...)

	case "copy":
		src := args[1]
		if s, ok := src.(string); ok {
			b := make([]value, len(s))
			for k := 0; k < len(s); k++ {
				b[k] = s[k]
			}
			src = b
		}
		return copy(args[0].([]value), src.([]value))

	case "close":
		i.sched.closeChan(args[0].(*gchan))
		return nil

	case "delete":
		m := args[0].(*omap)
		k := args[1]
		if s, ok := k.(sv); ok {
			k = i.concretize(s)
		}
		m.delete(k)
		return nil

	case "clear":
		switch x := args[0].(type) {
		case *omap:
			x.clear()
		case []value:
			if len(x) > 0 {
				et := fn.Type().(*types.Signature).Params().At(0).Type().Underlying().(*types.Slice).Elem()
				for k := range x {
					x[k] = zero(et)
				}
			}
		}
		return nil

	case "print", "println":
		return nil

	case "len":
		switch x := args[0].(type) {
		case string:
			return len(x)
		case array:
			return len(x)
		case *value:
			if x == nil {
				// len of nil *array is the array length; types carry it
				pt := fn.Type().(*types.Signature).Params().At(0).Type().Underlying().(*types.Pointer)
				return int(pt.Elem().Underlying().(*types.Array).Len())
			}
			return len((*x).(array))
		case []value:
			return len(x)
		case *omap:
			return x.len()
		case *gchan:
			if x == nil {
				return 0
			}
			return len(x.buf)
		default:
			panic(fmt.Sprintf("len: illegal operand: %T", x))
		}

	case "cap":
		switch x := args[0].(type) {
		case array:
			return cap(x)
		case *value:
			return cap((*x).(array))
		case []value:
			return cap(x)
		case *gchan:
			if x == nil {
				return 0
			}
			return x.cap
		default:
			panic(fmt.Sprintf("cap: illegal operand: %T", x))
		}

	case "min":
		x := args[0]
		for _, y := range args[1:] {
			x = i.minmax(x, y, token.LSS)
		}
		return x
	case "max":
		x := args[0]
		for _, y := range args[1:] {
			x = i.minmax(x, y, token.GTR)
		}
		return x

	case "real", "imag", "complex":
		panic(unsupported("complex numbers"))

	case "panic":
		panic(targetPanic{args[0]})

	case "recover":
		return doRecover(caller)

	case "ssa:wrapnilchk":
		recv := args[0]
		if recv.(*value) == nil {
			recvType := args[1]
			methodName := args[2]
			panic(runtimePanic{fmt.Sprintf("value method (%s).%s called using nil *%s pointer",
				recvType, methodName, recvType)})
		}
		return recv

	case "ssa:deferstack":
		return &caller.defers

	// package unsafe: element pointers are real pointers into []value backing arrays
	case "String":
		n := int(i.intArg(args[1]))
		p, _ := args[0].(*value)
		if n == 0 || p == nil {
			return ""
		}
		el := unsafe.Slice(p, n)
		return string(bytesOf(i, []value(el)))
	case "SliceData":
		sl := args[0].([]value)
		if cap(sl) == 0 {
			return (*value)(nil)
		}
		return &sl[:1][0]
	case "StringData":
		b := fromBytes([]byte(args[0].(string)))
		if len(b) == 0 {
			return (*value)(nil)
		}
		return &b[0]
	case "Slice":
		n := int(i.intArg(args[1]))
		p, _ := args[0].(*value)
		if p == nil || n == 0 {
			return []value(nil)
		}
		return []value(unsafe.Slice(p, n))
	}
	panic("unknown built-in: " + fn.Name())
}

// minmax returns y if (y op x) else x, as an ite for symbolic operands.
func (i *interpreter) minmax(x, y value, op token.Token) value {
	c := i.binop(op, nil, y, x)
	switch c := c.(type) {
	case bool:
		if c {
			return y
		}
		return x
	case sv:
		k, _ := kindOf(x)
		return mkval(k, i.pool.Ite(c.t, i.term(y), i.term(x)))
	}
	panic("minmax")
}

// sliceToArrayPointer converts the value x of type slice to a pointer to array.
func sliceToArrayPointer(t_dst, t_src types.Type, x value) value {
	if _, ok := t_src.Underlying().(*types.Slice); ok {
		if ptr, ok := t_dst.Underlying().(*types.Pointer); ok {
			if arr, ok := ptr.Elem().Underlying().(*types.Array); ok {
				x := x.([]value)
				if arr.Len() > int64(len(x)) {
					panic(runtimePanic{"cannot convert slice to array pointer: length mismatch"})
				}
				if x == nil {
					return zero(t_dst)
				}
				v := value(array(x[:arr.Len()]))
				return &v
			}
		}
	}
	panic(fmt.Sprintf("unsupported conversion: %s  -> %s, dynamic type %T", t_src, t_dst, x))
}

var _ = math.Abs
var _ = sort.Ints
