package gosym

import (
	"fmt"
	"os"
	"strings"

	"golang.org/x/tools/go/packages"
	"golang.org/x/tools/go/ssa"
	"golang.org/x/tools/go/ssa/ssautil"
)

// Loaded is an SSA program built from /repo's working tree plus overlay files.
type Loaded struct {
	Prog     *ssa.Program
	Pkgs     map[string]*ssa.Package // by import path
	NumPkgs  int
	Warnings []string
}

// Load type-checks the given package patterns in dir (with overlay files and
// build tags) and builds SSA for the whole import closure.
func Load(dir string, patterns []string, overlay map[string][]byte, tags string) (*Loaded, error) {
	cfg := &packages.Config{
		Mode: packages.NeedName | packages.NeedFiles | packages.NeedCompiledGoFiles | packages.NeedImports |
			packages.NeedDeps | packages.NeedTypes | packages.NeedSyntax | packages.NeedTypesInfo | packages.NeedTypesSizes | packages.NeedModule,
		Dir:     dir,
		Overlay: overlay,
		Env:     append(os.Environ(), "GOFLAGS=-mod=mod", "GOPROXY=off", "CGO_ENABLED=0"),
	}
	if tags != "" {
		cfg.BuildFlags = []string{"-tags=" + tags}
	}
	initial, err := packages.Load(cfg, patterns...)
	if err != nil {
		return nil, err
	}
	var errs []string
	n := 0
	packages.Visit(initial, nil, func(p *packages.Package) {
		n++
		for _, e := range p.Errors {
			errs = append(errs, fmt.Sprintf("%s: %s", p.PkgPath, e.Msg))
		}
	})
	if len(errs) > 0 {
		if len(errs) > 20 {
			errs = errs[:20]
		}
		return nil, fmt.Errorf("package errors:\n  %s", strings.Join(errs, "\n  "))
	}
	prog, _ := ssautil.AllPackages(initial, ssa.InstantiateGenerics|ssa.SanityCheckFunctions&0)
	prog.Build()
	l := &Loaded{Prog: prog, Pkgs: map[string]*ssa.Package{}, NumPkgs: n}
	for _, p := range prog.AllPackages() {
		l.Pkgs[p.Pkg.Path()] = p
	}
	return l, nil
}
