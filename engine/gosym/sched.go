package gosym

// Deterministic cooperative scheduler for interpreted goroutines, with
// channels, select, timers and the blocking primitives used by the sync
// intrinsics.  Exactly one interpreted goroutine runs at a time; which one
// runs next at a scheduling point is a decision ('s'), bounded by a delay
// budget (delay bounding, Emmi/Qadeer/Rakamarić 2011).

import (
	"fmt"
	"go/token"
	"go/types"
	"sort"
	"strings"

	"golang.org/x/tools/go/ssa"
)

const (
	gRunnable = iota
	gBlocked
	gDone
)

type gor struct {
	id       int
	wake     chan struct{}
	state    int
	cond     func() bool // when blocked: enabled iff cond() (nil: needs explicit ready)
	what     string      // what it is blocked on (diagnostics)
	timer    bool        // blocked until its deadline; fired by the scheduler
	deadline int64
	seq      int // tie-break for timers
	name     string
	// select/chan wait result
	sel *sudog
}

// sudog is a goroutine waiting on a channel (possibly as part of a select).
type sudog struct {
	g       *gor
	ch      *gchan
	val     value // value to send, or received value
	ok      bool  // receive: value came from a send (not close)
	isSend  bool
	caseIdx int
	group   *selGroup // non-nil: part of a select
	done    bool
	closed  bool // woken by close
}

type selGroup struct {
	fired bool
	which *sudog
	all   []*sudog
}

type gchan struct {
	id     int
	cap    int
	buf    []value
	closed bool
	sendq  []*sudog
	recvq  []*sudog
}

type scheduler struct {
	i        *interpreter
	gs       []*gor
	cur      *gor
	delays   int
	clock    int64
	nchan    int
	mainDone chan *PathResult
	aborted  bool
	result   *PathResult
	exited   chan struct{} // one token per finished real goroutine
	started  int
	timerSeq int
	mutexes  map[*value]*mutexState
	wgs      map[*value]*wgState
	conds    map[*value]*condState
	points   int
}

func newScheduler(i *interpreter) *scheduler {
	return &scheduler{
		i:        i,
		mainDone: make(chan *PathResult, 1),
		exited:   make(chan struct{}, 1024),
		mutexes:  map[*value]*mutexState{},
		wgs:      map[*value]*wgState{},
		conds:    map[*value]*condState{},
	}
}

// abortPanic unwinds an interpreted goroutine when the path is over.
type abortPanic struct{}

// runMain runs the harness entry as goroutine 0 and returns the path result.
func (s *scheduler) runMain(entry *ssa.Function) *PathResult {
	g := &gor{id: 0, wake: make(chan struct{}, 1), name: "main"}
	s.gs = append(s.gs, g)
	s.cur = g
	s.started++
	go s.goroutineBody(g, func() {
		s.i.call(nil, token.NoPos, entry, nil)
	}, true)
	res := <-s.mainDone
	// kill all remaining goroutines
	s.aborted = true
	for _, og := range s.gs {
		if og.state != gDone {
			select {
			case og.wake <- struct{}{}:
			default:
			}
		}
	}
	for k := 0; k < s.started; k++ {
		<-s.exited
	}
	return res
}

// finish reports the path result (first one wins) and stops scheduling.
func (s *scheduler) finish(res *PathResult) {
	if s.result == nil {
		s.result = res
		s.mainDone <- res
	}
}

func (s *scheduler) goroutineBody(g *gor, body func(), isMain bool) {
	defer func() { s.exited <- struct{}{} }()
	if !isMain {
		<-g.wake // wait to be scheduled for the first time
		if s.aborted {
			g.state = gDone
			return
		}
	}
	var res *PathResult
	func() {
		defer func() {
			p := recover()
			if p == nil {
				return
			}
			i := s.i
			switch p := p.(type) {
			case abortPanic:
				res = nil
			case pathEnd:
				res = p.res
			case targetPanic:
				res = &PathResult{Kind: "violation", Label: "panic", Msg: "panic: " + i.panicString(p.v), Site: i.panicSite, Stack: i.panicStack}
			case runtimePanic:
				res = &PathResult{Kind: "violation", Label: "panic", Msg: "panic: runtime error: " + p.msg, Site: i.panicSite, Stack: i.panicStack}
			case goexitPanic:
				res = nil
			case unsupportedPanic:
				res = &PathResult{Kind: "unsupported", Msg: p.msg, Stack: stackOf()}
			case budgetPanic:
				res = &PathResult{Kind: "budget", Label: p.kind, Msg: p.msg}
			case engineError:
				res = &PathResult{Kind: "engine_error", Msg: p.msg, Stack: p.stack}
			default:
				res = &PathResult{Kind: "engine_error", Msg: fmt.Sprintf("%v", p), Stack: stackOf()}
			}
		}()
		body()
	}()
	if s.aborted {
		g.state = gDone
		return
	}
	if res != nil {
		if res.Kind == "violation" {
			s.i.fillModel(res)
		}
		g.state = gDone
		s.finish(res)
		return
	}
	g.state = gDone
	if isMain {
		s.finish(s.i.finishOK())
		return
	}
	// hand the baton to someone else
	s.schedule(nil)
}

func (i *interpreter) panicString(v value) string {
	if it, ok := v.(iface); ok {
		if it.t == nil {
			return "nil"
		}
		if s, ok := it.v.(string); ok {
			return s
		}
		// error or Stringer?
		if f := i.findMethod(it.t, nil, "Error"); f != nil {
			var out string
			func() {
				defer func() { recover() }()
				out = fmt.Sprint(i.call(nil, token.NoPos, f, []value{it.v}))
			}()
			if out != "" {
				return out
			}
		}
		return toString(it.v) + " (" + it.t.String() + ")"
	}
	return toString(v)
}

// spawn creates a new interpreted goroutine.
func (s *scheduler) spawn(fr *frame, pos token.Pos, fn value, args []value) *gor {
	g := &gor{id: len(s.gs), wake: make(chan struct{}, 1), state: gRunnable}
	if fr != nil {
		g.name = "go@" + fr.site()
	}
	s.gs = append(s.gs, g)
	s.started++
	go s.goroutineBody(g, func() {
		s.i.call(nil, pos, fn, args)
	}, false)
	s.yield("go")
	return g
}

func (s *scheduler) enabled(g *gor) bool {
	switch g.state {
	case gRunnable:
		return true
	case gBlocked:
		if g.timer {
			return false
		}
		return g.cond != nil && g.cond()
	}
	return false
}

// candidates returns the goroutines that may run next: enabled ones
// (current first, then by id), followed by pending timers by deadline.
func (s *scheduler) candidates(preferCur bool) []*gor {
	var en, timers []*gor
	for _, g := range s.gs {
		if g.state == gBlocked && g.timer {
			timers = append(timers, g)
		} else if s.enabled(g) {
			en = append(en, g)
		}
	}
	if preferCur && s.cur != nil {
		for k, g := range en {
			if g == s.cur {
				en = append([]*gor{g}, append(append([]*gor{}, en[:k]...), en[k+1:]...)...)
				break
			}
		}
	}
	sort.SliceStable(timers, func(a, b int) bool {
		if timers[a].deadline != timers[b].deadline {
			return timers[a].deadline < timers[b].deadline
		}
		return timers[a].seq < timers[b].seq
	})
	if len(en) == 0 {
		return timers // idle: time passes, earliest timer first
	}
	return append(en, timers...)
}

// yield is a scheduling point at which the current goroutine stays runnable.
func (s *scheduler) yield(what string) {
	if s.aborted {
		panic(abortPanic{})
	}
	me := s.cur
	s.points++
	left := s.i.cfg.Delays - s.delays
	if left <= 0 {
		return
	}
	c := s.candidates(true)
	if len(c) <= 1 {
		return
	}
	n := len(c)
	if n > left+1 {
		n = left + 1
	}
	k := s.i.choice('s', n)
	if k == 0 {
		return
	}
	s.delays += k
	next := c[k]
	s.switchTo(me, next)
}

// park blocks the current goroutine until cond() holds (or, if cond is nil,
// until another goroutine calls ready on it) and runs someone else.
func (s *scheduler) park(cond func() bool, what string) {
	me := s.cur
	me.state = gBlocked
	me.cond = cond
	me.what = what
	s.schedule(me)
	me.cond = nil
	me.what = ""
}

func (s *scheduler) ready(g *gor) {
	if g.state == gBlocked {
		g.state = gRunnable
		g.cond = nil
		g.timer = false
	}
}

// waitUntil blocks until cond holds.
func (s *scheduler) waitUntil(cond func() bool, what string) {
	for !cond() {
		s.park(cond, what)
	}
}

// schedule picks the next goroutine to run. me is the goroutine giving up
// the processor (nil if it has finished).
func (s *scheduler) schedule(me *gor) {
	if s.aborted {
		if me != nil {
			panic(abortPanic{})
		}
		return
	}
	c := s.candidates(false)
	if len(c) == 0 {
		// nobody can run
		var sb strings.Builder
		for _, g := range s.gs {
			if g.state == gBlocked {
				fmt.Fprintf(&sb, "g%d[%s] blocked on %s; ", g.id, g.name, g.what)
			}
		}
		mainAlive := s.gs[0].state != gDone
		if mainAlive {
			res := &PathResult{Kind: "violation", Label: "hang", Msg: "deadlock: " + sb.String()}
			s.i.fillModel(res)
			s.finish(res)
		}
		if me != nil {
			// wait to be aborted
			<-me.wake
			panic(abortPanic{})
		}
		return
	}
	left := s.i.cfg.Delays - s.delays
	n := len(c)
	if n > left+1 {
		n = left + 1
	}
	k := 0
	if n > 1 {
		k = s.i.choice('s', n)
		s.delays += k
	}
	next := c[k]
	s.switchTo(me, next)
}

func (s *scheduler) switchTo(me, next *gor) {
	if next.state == gBlocked && next.timer {
		// fire the timer: time advances to its deadline
		if next.deadline > s.clock {
			s.clock = next.deadline
		}
		next.timer = false
		next.state = gRunnable
	} else if next.state == gBlocked {
		next.state = gRunnable
	}
	if next == me {
		return
	}
	s.cur = next
	next.wake <- struct{}{}
	if me != nil {
		<-me.wake
		if s.aborted {
			panic(abortPanic{})
		}
	}
}

// sleep blocks the current goroutine until the virtual clock reaches now+d.
func (s *scheduler) sleepUntil(deadline int64, what string) {
	me := s.cur
	me.state = gBlocked
	me.timer = true
	me.deadline = deadline
	s.timerSeq++
	me.seq = s.timerSeq
	me.what = what
	s.schedule(me)
	me.what = ""
}

// ---- channels ----

func (s *scheduler) makeChan(size int) *gchan {
	s.nchan++
	return &gchan{id: s.nchan, cap: size}
}

func dequeue(q *[]*sudog) *sudog {
	for len(*q) > 0 {
		sd := (*q)[0]
		*q = (*q)[1:]
		if sd.done {
			continue
		}
		if sd.group != nil {
			if sd.group.fired {
				continue
			}
			sd.group.fired = true
			sd.group.which = sd
			for _, o := range sd.group.all {
				o.done = true
			}
		}
		sd.done = true
		return sd
	}
	return nil
}

func hasWaiter(q []*sudog) bool {
	for _, sd := range q {
		if !sd.done && (sd.group == nil || !sd.group.fired) {
			return true
		}
	}
	return false
}

func (s *scheduler) send(ch *gchan, v value) {
	s.yield("send")
	if ch == nil {
		s.park(nil, "send on nil channel")
		panic("unreachable: woke from nil channel send")
	}
	if ch.closed {
		panic(runtimePanic{"send on closed channel"})
	}
	if s.trySend(ch, v) {
		return
	}
	sd := &sudog{g: s.cur, ch: ch, val: v, isSend: true}
	ch.sendq = append(ch.sendq, sd)
	s.park(nil, fmt.Sprintf("chan send (chan %d)", ch.id))
	if sd.closed {
		panic(runtimePanic{"send on closed channel"})
	}
}

// trySend completes a send without blocking if possible.
func (s *scheduler) trySend(ch *gchan, v value) bool {
	if r := dequeue(&ch.recvq); r != nil {
		r.val, r.ok = v, true
		s.ready(r.g)
		r.g.sel = r
		return true
	}
	if len(ch.buf) < ch.cap {
		ch.buf = append(ch.buf, v)
		return true
	}
	return false
}

func (s *scheduler) recv(ch *gchan) (value, bool) {
	s.yield("recv")
	if ch == nil {
		s.park(nil, "receive from nil channel")
		panic("unreachable: woke from nil channel recv")
	}
	if v, ok, done := s.tryRecv(ch); done {
		return v, ok
	}
	sd := &sudog{g: s.cur, ch: ch}
	ch.recvq = append(ch.recvq, sd)
	s.park(nil, fmt.Sprintf("chan receive (chan %d)", ch.id))
	return sd.val, sd.ok
}

func (s *scheduler) tryRecv(ch *gchan) (v value, ok bool, done bool) {
	if len(ch.buf) > 0 {
		v = ch.buf[0]
		ch.buf = ch.buf[1:]
		if w := dequeue(&ch.sendq); w != nil {
			ch.buf = append(ch.buf, w.val)
			s.ready(w.g)
			w.g.sel = w
		}
		return v, true, true
	}
	if w := dequeue(&ch.sendq); w != nil {
		s.ready(w.g)
		w.g.sel = w
		return w.val, true, true
	}
	if ch.closed {
		return nil, false, true
	}
	return nil, false, false
}

func (s *scheduler) closeChan(ch *gchan) {
	s.yield("close")
	if ch == nil {
		panic(runtimePanic{"close of nil channel"})
	}
	if ch.closed {
		panic(runtimePanic{"close of closed channel"})
	}
	ch.closed = true
	for {
		r := dequeue(&ch.recvq)
		if r == nil {
			break
		}
		r.val, r.ok, r.closed = nil, false, true
		s.ready(r.g)
		r.g.sel = r
	}
	for {
		w := dequeue(&ch.sendq)
		if w == nil {
			break
		}
		w.closed = true
		s.ready(w.g)
		w.g.sel = w
	}
}

func (s *scheduler) selectOp(fr *frame, instr *ssa.Select) value {
	s.yield("select")
	type cs struct {
		ch   *gchan
		send bool
		val  value
	}
	cases := make([]cs, len(instr.States))
	for k, st := range instr.States {
		c := cs{ch: fr.get(st.Chan).(*gchan), send: st.Dir == types.SendOnly}
		if c.send {
			c.val = fr.get(st.Send)
		}
		cases[k] = c
	}
	result := func(chosen int, recv value, recvOk bool) value {
		r := tuple{chosen, recvOk}
		for k, st := range instr.States {
			if st.Dir == types.RecvOnly {
				var v value
				if k == chosen && recvOk {
					v = recv
				} else {
					v = zero(st.Chan.Type().Underlying().(*types.Chan).Elem())
				}
				r = append(r, v)
			}
		}
		return r
	}
	// which cases are ready now?
	var ready []int
	for k, c := range cases {
		if c.ch == nil {
			continue
		}
		if c.send {
			if c.ch.closed || hasWaiter(c.ch.recvq) || len(c.ch.buf) < c.ch.cap {
				ready = append(ready, k)
			}
		} else {
			if len(c.ch.buf) > 0 || hasWaiter(c.ch.sendq) || c.ch.closed {
				ready = append(ready, k)
			}
		}
	}
	if len(ready) > 0 {
		k := 0
		if len(ready) > 1 {
			// Go picks uniformly among ready cases: a decision under the delay budget
			left := s.i.cfg.Delays - s.delays
			n := len(ready)
			if n > left+1 {
				n = left + 1
			}
			if n > 1 {
				k = s.i.choice('s', n)
				s.delays += k
			}
		}
		c := cases[ready[k]]
		if c.send {
			if c.ch.closed {
				panic(runtimePanic{"send on closed channel"})
			}
			if !s.trySend(c.ch, c.val) {
				panic("select: ready send could not complete")
			}
			return result(ready[k], nil, false)
		}
		v, ok, done := s.tryRecv(c.ch)
		if !done {
			panic("select: ready recv could not complete")
		}
		return result(ready[k], v, ok)
	}
	if !instr.Blocking {
		return result(-1, nil, false)
	}
	grp := &selGroup{}
	for k, c := range cases {
		if c.ch == nil {
			continue
		}
		sd := &sudog{g: s.cur, ch: c.ch, val: c.val, isSend: c.send, caseIdx: k, group: grp}
		grp.all = append(grp.all, sd)
		if c.send {
			c.ch.sendq = append(c.ch.sendq, sd)
		} else {
			c.ch.recvq = append(c.ch.recvq, sd)
		}
	}
	s.park(nil, "select")
	w := grp.which
	if w == nil {
		panic("select: woke without a fired case")
	}
	if w.isSend {
		if w.closed {
			panic(runtimePanic{"send on closed channel"})
		}
		return result(w.caseIdx, nil, false)
	}
	return result(w.caseIdx, w.val, w.ok)
}

// ---- sync primitives (state keyed by the address of the primitive) ----

type mutexState struct {
	locked  bool
	readers int
	owner   int
}

type wgState struct{ n int64 }

type condState struct {
	waiters []*gor
	tickets map[*gor]bool
}

func (s *scheduler) mutex(p *value) *mutexState {
	m := s.mutexes[p]
	if m == nil {
		m = &mutexState{}
		s.mutexes[p] = m
	}
	return m
}

func (s *scheduler) lock(p *value) {
	s.yield("lock")
	m := s.mutex(p)
	s.waitUntil(func() bool { return !m.locked && m.readers == 0 }, "mutex lock")
	m.locked = true
	m.owner = s.cur.id
}

func (s *scheduler) tryLock(p *value) bool {
	s.yield("trylock")
	m := s.mutex(p)
	if m.locked || m.readers > 0 {
		return false
	}
	m.locked = true
	m.owner = s.cur.id
	return true
}

func (s *scheduler) unlock(p *value) {
	m := s.mutex(p)
	if !m.locked {
		panic(runtimePanic{"sync: unlock of unlocked mutex"})
	}
	m.locked = false
	s.yield("unlock")
}

func (s *scheduler) rlock(p *value) {
	s.yield("rlock")
	m := s.mutex(p)
	s.waitUntil(func() bool { return !m.locked }, "rwmutex rlock")
	m.readers++
}

func (s *scheduler) runlock(p *value) {
	m := s.mutex(p)
	if m.readers <= 0 {
		panic(runtimePanic{"sync: RUnlock of unlocked RWMutex"})
	}
	m.readers--
	s.yield("runlock")
}

func (s *scheduler) wg(p *value) *wgState {
	w := s.wgs[p]
	if w == nil {
		w = &wgState{}
		s.wgs[p] = w
	}
	return w
}

func (s *scheduler) wgAdd(p *value, d int64) {
	w := s.wg(p)
	w.n += d
	if w.n < 0 {
		panic(runtimePanic{"sync: negative WaitGroup counter"})
	}
	s.yield("wg.add")
}

func (s *scheduler) wgWait(p *value) {
	s.yield("wg.wait")
	w := s.wg(p)
	s.waitUntil(func() bool { return w.n == 0 }, "WaitGroup.Wait")
}

func (s *scheduler) condOf(p *value) *condState {
	c := s.conds[p]
	if c == nil {
		c = &condState{tickets: map[*gor]bool{}}
		s.conds[p] = c
	}
	return c
}
