package gosym

// Intrinsics: hand-written semantics for library functions the interpreter
// cannot execute from source, and the harness API (verif*).

import (
	"fmt"
	"go/token"
	"go/types"
	"math"
	"sort"
	"strconv"
	"strings"
	"sync"

	"golang.org/x/tools/go/ssa"
)

type externalFn func(fr *frame, args []value) value

var intrinsicCache sync.Map // *ssa.Function -> externalFn (possibly nil)

var externals = map[string]externalFn{}

func register(m map[string]externalFn) {
	for k, v := range m {
		externals[k] = v
	}
}

func (i *interpreter) lookupIntrinsic(fn *ssa.Function) externalFn {
	if len(i.cfg.Stubs) > 0 {
		if target, ok := i.cfg.Stubs[fn.String()]; ok {
			tf := i.h.Pkg.Func(target)
			if tf == nil {
				panic(unsupported("stub target not found: " + target))
			}
			return func(fr *frame, args []value) value {
				return fr.i.callSSA(fr.caller, token.NoPos, tf, args, nil)
			}
		}
	}
	if v, ok := intrinsicCache.Load(fn); ok {
		f, _ := v.(externalFn)
		return f
	}
	var f externalFn
	name := fn.String()
	if e, ok := externals[name]; ok {
		f = e
	} else if strings.Contains(name, "[") {
		if e, ok := externals[stripTypeArgs(name)]; ok {
			f = e
		}
	}
	if f == nil && strings.HasPrefix(fn.Name(), "verif") && fn.Pkg != nil {
		if e, ok := harnessAPI[fn.Name()]; ok {
			f = e
		}
	}
	if f == nil {
		intrinsicCache.Store(fn, nil)
		return nil
	}
	intrinsicCache.Store(fn, f)
	return f
}

// ---- harness API ----

var harnessAPI = map[string]externalFn{}

func init() {
	mkVar := func(k types.BasicKind) externalFn {
		return func(fr *frame, args []value) value {
			return fr.i.newVar(args[0].(string), k)
		}
	}
	harnessAPI["verifInt"] = mkVar(types.Int)
	harnessAPI["verifInt64"] = mkVar(types.Int64)
	harnessAPI["verifInt32"] = mkVar(types.Int32)
	harnessAPI["verifUint64"] = mkVar(types.Uint64)
	harnessAPI["verifUint32"] = mkVar(types.Uint32)
	harnessAPI["verifUint16"] = mkVar(types.Uint16)
	harnessAPI["verifUint8"] = mkVar(types.Uint8)
	harnessAPI["verifByte"] = mkVar(types.Uint8)
	harnessAPI["verifBool"] = func(fr *frame, args []value) value {
		v := fr.i.newVar(args[0].(string), types.Bool).(sv)
		if !fr.i.cfg.NoFastPath {
			fr.i.doms[v.t] = &domain{vals: []uint64{0, 1}}
		}
		return v
	}
	harnessAPI["verifFloat64"] = mkVar(types.Float64)
	harnessAPI["verifChoice"] = func(fr *frame, args []value) value {
		// a finite choice in [0,n): symbolic int constrained to the range, so
		// the code forks on it lazily (only where it is inspected)
		i := fr.i
		n := int(i.intArg(args[1]))
		v := i.newVar(args[0].(string), types.Int).(sv)
		p := i.pool
		if n <= 64 && !i.cfg.NoFastPath {
			d := &domain{}
			for k := 0; k < n; k++ {
				d.vals = append(d.vals, uint64(k))
			}
			i.doms[v.t] = d
		}
		c := p.And(p.BVCmp("bvsge", v.t, p.BV(0, SBV64)), p.BVCmp("bvslt", v.t, p.BV(uint64(n), SBV64)))
		i.assume(c)
		return v
	}
	harnessAPI["verifConcrete"] = func(fr *frame, args []value) value {
		// force a concrete value now (forks over admissible values)
		if s, ok := args[0].(sv); ok {
			return fr.i.concretize(s)
		}
		return args[0]
	}
	harnessAPI["verifAssume"] = func(fr *frame, args []value) value {
		i := fr.i
		switch c := args[0].(type) {
		case bool:
			if !c {
				panic(pathEnd{&PathResult{Kind: "dropped", Msg: "assume(false)"}})
			}
		case sv:
			i.assume(c.t)
		}
		return nil
	}
	harnessAPI["verifAssert"] = func(fr *frame, args []value) value {
		fr.i.assert(fr, args[0], args[1].(string))
		return nil
	}
	harnessAPI["verifFail"] = func(fr *frame, args []value) value {
		site := ""
		if fr != nil && fr.caller != nil {
			site = fr.caller.site()
		}
		label := args[0].(string)
		res := &PathResult{Kind: "violation", Label: label, Msg: "assertion failed: " + label, Site: site}
		fr.i.fillModel(res)
		panic(pathEnd{res})
	}
	harnessAPI["verifCover"] = func(fr *frame, args []value) value {
		fr.i.covers[args[0].(string)] = true
		return nil
	}
	harnessAPI["verifObserve"] = func(fr *frame, args []value) value {
		i := fr.i
		i.observes = append(i.observes, args[0].(string))
		var row []value
		for _, a := range args[1].([]value) {
			row = append(row, a.(iface).v)
		}
		i.obsTerms = append(i.obsTerms, row)
		return nil
	}
	// verifDeepRender: an injective structural rendering of a concrete value
	// (dynamic type names included, map entries sorted by rendered key, no
	// depth limit). Used by harness stubs that stand in for a serialiser
	// whose only relevant property is injectivity (json.Marshal feeding a
	// digest). A symbolic leaf makes the path inconclusive, never equal.
	harnessAPI["verifDeepRender"] = func(fr *frame, args []value) value {
		var sb strings.Builder
		fr.i.deepRender(&sb, args[0], 0)
		return sb.String()
	}
	harnessAPI["verifYield"] = func(fr *frame, args []value) value {
		fr.i.sched.yield("verifYield")
		return nil
	}
	harnessAPI["verifSchedOff"] = func(fr *frame, args []value) value {
		// spend the remaining delay budget: the rest of the path runs under the default schedule
		fr.i.sched.delays = fr.i.cfg.Delays
		return nil
	}
	harnessAPI["verifSymbolic"] = func(fr *frame, args []value) value { return true }
	harnessAPI["verifAnd"] = func(fr *frame, args []value) value { return fr.i.andV(args[0], args[1]) }
	harnessAPI["verifOr"] = func(fr *frame, args []value) value { return fr.i.orV(args[0], args[1]) }
	harnessAPI["verifNot"] = func(fr *frame, args []value) value { return fr.i.notV(args[0]) }
	harnessAPI["verifImplies"] = func(fr *frame, args []value) value {
		return fr.i.orV(fr.i.notV(args[0]), args[1])
	}
	harnessAPI["verifIteInt"] = func(fr *frame, args []value) value {
		i := fr.i
		switch c := args[0].(type) {
		case bool:
			if c {
				return args[1]
			}
			return args[2]
		case sv:
			return mkval(types.Int, i.pool.Ite(c.t, i.term(args[1]), i.term(args[2])))
		}
		panic("verifIteInt")
	}
	harnessAPI["verifB2I"] = func(fr *frame, args []value) value {
		i := fr.i
		switch c := args[0].(type) {
		case bool:
			if c {
				return 1
			}
			return 0
		case sv:
			return mkval(types.Int, i.pool.Ite(c.t, i.pool.BV(1, SBV64), i.pool.BV(0, SBV64)))
		}
		panic("verifB2I")
	}
	harnessAPI["verifRegister"] = func(fr *frame, args []value) value { return nil }
	harnessAPI["verifParam"] = func(fr *frame, args []value) value {
		if v, ok := fr.i.cfg.Params[args[0].(string)]; ok {
			return v
		}
		return int(fr.i.intArg(args[1]))
	}
	harnessAPI["verifClock"] = func(fr *frame, args []value) value { return fr.i.sched.clock }
	harnessAPI["verifGoroutines"] = func(fr *frame, args []value) value {
		n := 0
		for _, g := range fr.i.sched.gs {
			if g.state != gDone {
				n++
			}
		}
		return n
	}
}

func (i *interpreter) assume(c *Term) {
	if i.sub != nil {
		panic(summaryAbort{"assume inside a summarised callee"})
	}
	if c.IsConst() {
		if c.val == 0 {
			panic(pathEnd{&PathResult{Kind: "dropped", Msg: "assume(false)"}})
		}
		return
	}
	if i.pos < len(i.prefix) {
		// inside the replayed prefix: feasibility already established
		i.assertPC(c)
		return
	}
	if ct, _, ok := i.domFeasible(c); ok {
		i.fastDecisions++
		if !ct {
			panic(pathEnd{&PathResult{Kind: "dropped", Msg: "assumption unsatisfiable"}})
		}
		i.assertPC(c)
		return
	}
	r := i.check(c, false)
	if r == Unsat {
		panic(pathEnd{&PathResult{Kind: "dropped", Msg: "assumption unsatisfiable"}})
	}
	i.assertPC(c)
}

// assert discharges pc ∧ ¬c. sat ⇒ violation with model; unsat ⇒ continue with c.
func (i *interpreter) assert(fr *frame, cv value, label string) {
	site := ""
	if fr != nil && fr.caller != nil {
		site = fr.caller.site()
	}
	switch c := cv.(type) {
	case bool:
		if !c {
			i.softFail(label, "assertion failed: "+label, site)
		}
	case sv:
		var r Result
		if _, cf, ok := i.domFeasible(c.t); ok {
			i.fastDecisions++
			if cf {
				r = Sat
			} else {
				r = Unsat
			}
		} else {
			r = i.check(c.t, true)
		}
		for _, x := range i.extraSolvers {
			// second opinion on assertion queries: replay pc on the other solver
			x.Reset()
			for _, v := range i.pool.vars {
				x.Declare(v)
			}
			for _, t := range i.pc {
				x.Assert(t)
			}
			r2 := x.Check(c.t, true)
			if r2 == r {
				i.assertsChecked++
			} else {
				i.secondDisagree++
				r = Unknown
			}
		}
		switch r {
		case Unsat:
			i.assertPC(c.t)
		case Sat:
			i.assertPC(i.pool.Not(c.t))
			i.softFail(label, "assertion can fail: "+label, site)
		default:
			panic(pathEnd{&PathResult{Kind: "solver", Label: label, Msg: "assertion query inconclusive: " + lastSolverError, Site: site}})
		}
	default:
		panic(fmt.Sprintf("verifAssert(%T)", cv))
	}
}

// softFail records a failed oracle and lets the path continue (on the failing
// side), so that the oracles of other properties further down the same path are
// still evaluated and every failing label is attributed to its own property.
func (i *interpreter) softFail(label, msg, site string) {
	i.soft = append(i.soft, softViol{label, msg, site})
	if len(i.soft) >= 24 {
		res := &PathResult{Kind: "violation", Label: label, Msg: msg, Site: site}
		i.fillModel(res)
		panic(pathEnd{res})
	}
}

type softViol struct{ label, msg, site string }

// ---- globals and lazy package initialisation ----

type poison struct{ why string }

func (i *interpreter) globalAddr(g *ssa.Global) *value {
	if p, ok := i.globals[g]; ok {
		if len(i.poisoned) > 0 && i.initMode == 0 {
			if why, bad := i.poisoned[g]; bad {
				panic(unsupported("global " + g.String() + " could not be initialised: " + why))
			}
		}
		return p
	}
	pkg := g.Pkg
	if i.pkgInit[pkg] != 0 {
		panic(fmt.Sprintf("global %s missing after package init", g))
	}
	i.pkgInit[pkg] = 1
	for _, m := range pkg.Members {
		if v, ok := m.(*ssa.Global); ok {
			cell := zero(mustDeref(v.Type()))
			i.globals[v] = &cell
		}
	}
	if !i.cfg.isNoop(pkg.Pkg.Path()) && !skipInit[pkg.Pkg.Path()] {
		i.runPkgInit(pkg)
	}
	i.pkgInit[pkg] = 2
	return i.globalAddr(g)
}

// packages whose initialisers are never run (their globals stay zero).
var skipInit = map[string]bool{
	"runtime": true, "os": true, "syscall": true, "internal/poll": true, "net": false,
	"internal/godebug": true, "internal/cpu": true, "testing": true, "flag": true,
	"crypto/rand": true, "math/rand": true, "math/rand/v2": true,
}

func (i *interpreter) runPkgInit(pkg *ssa.Package) {
	init := pkg.Func("init")
	if init == nil || init.Blocks == nil {
		return
	}
	i.initMode++
	savedSteps := i.steps
	defer func() {
		i.initMode--
		i.steps = savedSteps // initialisation does not count against the path budget
	}()
	fr := &frame{i: i, fn: init, g: i.sched.cur}
	fr.env = make(map[ssa.Value]value)
	// Execute the init body tolerantly: skip the guard and the calls to
	// imported packages' init (they are initialised lazily themselves).
	block := init.Blocks[0]
	if len(init.Blocks) > 1 {
		block = init.Blocks[1] // init.start
	}
	fr.block = block
	visited := 0
	for fr.block != nil {
		visited++
		if visited > 100000 {
			i.failInit(pkg, "init loop bound")
			return
		}
		jumped := false
		nonPhis := executePhisTolerant(fr)
		for _, instr := range nonPhis {
			fr.cur = instr
			if c, ok := instr.(*ssa.Call); ok {
				if f, ok := c.Call.Value.(*ssa.Function); ok && f.Name() == "init" && f.Pkg != pkg && f.Synthetic != "" {
					continue
				}
			}
			if st, ok := instr.(*ssa.Store); ok {
				if gl, ok := st.Addr.(*ssa.Global); ok && gl.Name() == "init$guard" {
					continue
				}
			}
			if _, ok := instr.(*ssa.Return); ok {
				fr.block = nil
				jumped = true
				break
			}
			cont, why := i.tolerantVisit(fr, instr)
			if why != "" {
				switch in := instr.(type) {
				case *ssa.If:
					i.failInit(pkg, why)
					return
				case *ssa.Store:
					if root := rootGlobal(in.Addr); root != nil {
						i.poisoned[root] = why
					}
				case ssa.Value:
					fr.env[in] = poison{why}
				}
				continue
			}
			if cont == kJump {
				jumped = true
				break
			}
		}
		if !jumped {
			fr.block = nil
		}
	}
}

func executePhisTolerant(fr *frame) (res []ssa.Instruction) {
	defer func() {
		if p := recover(); p != nil {
			if isControlPanic(p) {
				panic(p)
			}
			// phi of an undefined (poisoned) value: find first non-phi
			for k, instr := range fr.block.Instrs {
				if phi, ok := instr.(*ssa.Phi); ok {
					if _, ok := fr.env[phi]; !ok {
						fr.env[phi] = poison{"phi of poisoned value"}
					}
				} else {
					res = fr.block.Instrs[k:]
					return
				}
			}
		}
	}()
	return executePhis(fr)
}

func isControlPanic(p interface{}) bool {
	switch p.(type) {
	case pathEnd, abortPanic, budgetPanic:
		return true
	}
	return false
}

func (i *interpreter) tolerantVisit(fr *frame, instr ssa.Instruction) (cont continuation, why string) {
	defer func() {
		if p := recover(); p != nil {
			if isControlPanic(p) {
				panic(p)
			}
			switch p := p.(type) {
			case unsupportedPanic:
				why = p.msg
			case engineError:
				why = p.msg
			case targetPanic:
				why = "panic in initialiser: " + i.panicString(p.v)
			case runtimePanic:
				why = "panic in initialiser: " + p.msg
			default:
				why = fmt.Sprintf("%v", p)
			}
			if why == "" {
				why = "unknown failure"
			}
		}
	}()
	return visitInstr(fr, instr), ""
}

func (i *interpreter) failInit(pkg *ssa.Package, why string) {
	for _, m := range pkg.Members {
		if v, ok := m.(*ssa.Global); ok {
			if _, done := i.poisoned[v]; !done {
				i.poisoned[v] = "package init aborted: " + why
			}
		}
	}
}

func rootGlobal(v ssa.Value) *ssa.Global {
	for {
		switch x := v.(type) {
		case *ssa.Global:
			return x
		case *ssa.FieldAddr:
			v = x.X
		case *ssa.IndexAddr:
			v = x.X
		default:
			return nil
		}
	}
}

// ---- helpers to build values of library types ----

// newError builds an error value of type *errors.errorString.
func (i *interpreter) newError(msg string) value {
	pkg := i.prog.ImportedPackage("errors")
	if pkg == nil {
		panic(unsupported("errors package not loaded"))
	}
	t := pkg.Type("errorString").Type()
	cell := value(structure{msg})
	return iface{t: types.NewPointer(t), v: &cell}
}

// callMethod calls the named method on a dynamic (type, value) pair if it exists.
func (i *interpreter) callMethod(fr *frame, it iface, name string, args ...value) (value, bool) {
	if it.t == nil {
		return nil, false
	}
	if nv, ok := it.v.(native); ok {
		nm := &nativeMethod{recv: nv, name: name}
		if !nm.exists() {
			return nil, false
		}
		return i.callNativeMethod(fr, nm, args), true
	}
	var pkg *types.Package
	if !token.IsExported(name) {
		if n, ok := it.t.(*types.Named); ok {
			pkg = n.Obj().Pkg()
		}
	}
	f := i.findMethod(it.t, pkg, name)
	if f == nil {
		return nil, false
	}
	return i.call(fr, token.NoPos, f, append([]value{it.v}, args...)), true
}

// fprint writes s to the io.Writer w by calling its Write method; writers the
// engine treats as no-ops (os.Stdout/Stderr, loggers) swallow the text.
func (i *interpreter) fprint(fr *frame, w value, s string) value {
	it, ok := w.(iface)
	if !ok || it.t == nil {
		return tuple{0, iface{}}
	}
	if n, isNamed := derefNamed(it.t); isNamed && n.Obj().Pkg() != nil && n.Obj().Pkg().Path() == "os" {
		return tuple{len(s), iface{}}
	}
	r, ok := i.callMethod(fr, it, "Write", fromBytes([]byte(s)))
	if !ok {
		return tuple{len(s), iface{}}
	}
	return r
}

func derefNamed(t types.Type) (*types.Named, bool) {
	if p, ok := t.(*types.Pointer); ok {
		t = p.Elem()
	}
	n, ok := t.(*types.Named)
	return n, ok
}

// errorString returns err.Error() for an error interface value.
func (i *interpreter) errorString(fr *frame, err value) string {
	it, ok := err.(iface)
	if !ok || it.t == nil {
		return "<nil>"
	}
	r, ok := i.callMethod(fr, it, "Error")
	if !ok {
		return "<" + it.t.String() + ">"
	}
	s, _ := r.(string)
	return s
}

// ---- sync, atomic ----

func init() {
	nop := func(fr *frame, args []value) value { return nil }
	register(map[string]externalFn{
		"(*sync.Mutex).Lock":    func(fr *frame, a []value) value { fr.i.sched.lock(a[0].(*value)); return nil },
		"(*sync.Mutex).Unlock":  func(fr *frame, a []value) value { fr.i.sched.unlock(a[0].(*value)); return nil },
		"(*sync.Mutex).TryLock": func(fr *frame, a []value) value { return fr.i.sched.tryLock(a[0].(*value)) },
		"(*sync.RWMutex).Lock":  func(fr *frame, a []value) value { fr.i.sched.lock(a[0].(*value)); return nil },
		"(*sync.RWMutex).Unlock": func(fr *frame, a []value) value {
			fr.i.sched.unlock(a[0].(*value))
			return nil
		},
		"(*sync.RWMutex).TryLock": func(fr *frame, a []value) value { return fr.i.sched.tryLock(a[0].(*value)) },
		"(*sync.RWMutex).RLock":   func(fr *frame, a []value) value { fr.i.sched.rlock(a[0].(*value)); return nil },
		"(*sync.RWMutex).RUnlock": func(fr *frame, a []value) value { fr.i.sched.runlock(a[0].(*value)); return nil },
		"(*sync.RWMutex).TryRLock": func(fr *frame, a []value) value {
			s := fr.i.sched
			s.yield("tryrlock")
			m := s.mutex(a[0].(*value))
			if m.locked {
				return false
			}
			m.readers++
			return true
		},
		"(*sync.WaitGroup).Add": func(fr *frame, a []value) value {
			fr.i.sched.wgAdd(a[0].(*value), fr.i.intArg(a[1]))
			return nil
		},
		"(*sync.WaitGroup).Done": func(fr *frame, a []value) value { fr.i.sched.wgAdd(a[0].(*value), -1); return nil },
		"(*sync.WaitGroup).Wait": func(fr *frame, a []value) value { fr.i.sched.wgWait(a[0].(*value)); return nil },
		"(*sync.WaitGroup).Go": func(fr *frame, a []value) value {
			s := fr.i.sched
			p := a[0].(*value)
			s.wgAdd(p, 1)
			f := a[1]
			s.spawn(fr, token.NoPos, &hostFunc{name: "wg.Go", f: func(fr2 *frame, _ []value) value {
				defer func() {
					if r := recover(); r != nil {
						panic(r)
					}
				}()
				fr.i.call(nil, token.NoPos, f, nil)
				s.wgAdd(p, -1)
				return nil
			}}, nil)
			return nil
		},
		"(*sync.Cond).Wait": func(fr *frame, a []value) value {
			i := fr.i
			s := i.sched
			cp := a[0].(*value)
			c := s.condOf(cp)
			L := (*cp).(structure)[1].(iface) // Cond{noCopy, L, notify, checker}
			me := s.cur
			c.waiters = append(c.waiters, me)
			i.callMethod(fr, L, "Unlock")
			s.waitUntil(func() bool { return c.tickets[me] }, "Cond.Wait")
			delete(c.tickets, me)
			i.callMethod(fr, L, "Lock")
			return nil
		},
		"(*sync.Cond).Signal": func(fr *frame, a []value) value {
			s := fr.i.sched
			c := s.condOf(a[0].(*value))
			if len(c.waiters) > 0 {
				c.tickets[c.waiters[0]] = true
				c.waiters = c.waiters[1:]
			}
			s.yield("cond.signal")
			return nil
		},
		"(*sync.Cond).Broadcast": func(fr *frame, a []value) value {
			s := fr.i.sched
			c := s.condOf(a[0].(*value))
			for _, w := range c.waiters {
				c.tickets[w] = true
			}
			c.waiters = nil
			s.yield("cond.broadcast")
			return nil
		},
		"(*sync.Pool).Get": func(fr *frame, a []value) value {
			p := a[0].(*value)
			st := (*p).(structure)
			// Pool{noCopy, local, localSize, victim, victimSize, New}
			newf := st[len(st)-1]
			if isNilRef(newf) {
				return iface{}
			}
			return fr.i.call(fr, token.NoPos, newf, nil)
		},
		"(*sync.Pool).Put":        nop,
		"(*sync.noCopy).Lock":     nop,
		"(*sync.noCopy).Unlock":   nop,
		"(*sync.copyChecker).check": nop,
		"runtime.Gosched":         func(fr *frame, a []value) value { fr.i.sched.yield("gosched"); return nil },
		"runtime.Goexit":          func(fr *frame, a []value) value { panic(goexitPanic{}) },
		"runtime.GC":              nop,
		"runtime.KeepAlive":       nop,
		"runtime.SetFinalizer":    nop,
		"runtime.GOMAXPROCS":      func(fr *frame, a []value) value { return 16 },
		"runtime.NumCPU":          func(fr *frame, a []value) value { return 16 },
		"runtime.NumGoroutine":    func(fr *frame, a []value) value { return len(fr.i.sched.gs) },
		"runtime.Callers":         func(fr *frame, a []value) value { return 0 },
		"runtime.Caller":          func(fr *frame, a []value) value { return tuple{uintptr(0), "", 0, false} },
		"runtime/debug.Stack":     func(fr *frame, a []value) value { return []value(nil) },
		"runtime/debug.PrintStack": nop,
		"os.Getenv":               func(fr *frame, a []value) value { return "" },
		"os.LookupEnv":            func(fr *frame, a []value) value { return tuple{"", false} },
	})

	// sync/atomic functions over plain cells
	for _, ty := range []string{"Int32", "Int64", "Uint32", "Uint64", "Uintptr", "Pointer"} {
		ty := ty
		externals["sync/atomic.Load"+ty] = func(fr *frame, a []value) value {
			fr.i.sched.yield("atomic.load")
			return *a[0].(*value)
		}
		externals["sync/atomic.Store"+ty] = func(fr *frame, a []value) value {
			*a[0].(*value) = a[1]
			fr.i.sched.yield("atomic.store")
			return nil
		}
		externals["sync/atomic.Swap"+ty] = func(fr *frame, a []value) value {
			p := a[0].(*value)
			old := *p
			*p = a[1]
			fr.i.sched.yield("atomic.swap")
			return old
		}
		externals["sync/atomic.CompareAndSwap"+ty] = func(fr *frame, a []value) value {
			i := fr.i
			p := a[0].(*value)
			var eq bool
			if ty == "Pointer" {
				eq = i.truth(i.equalsV(nil, *p, a[1]))
			} else {
				eq = i.truth(i.binop(token.EQL, nil, *p, a[1]))
			}
			if eq {
				*p = a[2]
			}
			i.sched.yield("atomic.cas")
			return eq
		}
		if ty != "Pointer" {
			externals["sync/atomic.Add"+ty] = func(fr *frame, a []value) value {
				i := fr.i
				p := a[0].(*value)
				*p = i.binop(token.ADD, nil, *p, a[1])
				v := *p
				i.sched.yield("atomic.add")
				return v
			}
			externals["sync/atomic.And"+ty] = func(fr *frame, a []value) value {
				i := fr.i
				p := a[0].(*value)
				old := *p
				*p = i.binop(token.AND, nil, *p, a[1])
				return old
			}
			externals["sync/atomic.Or"+ty] = func(fr *frame, a []value) value {
				i := fr.i
				p := a[0].(*value)
				old := *p
				*p = i.binop(token.OR, nil, *p, a[1])
				return old
			}
		}
	}
	// atomic.Value: struct{ v any }
	externals["(*sync/atomic.Value).Load"] = func(fr *frame, a []value) value {
		fr.i.sched.yield("atomic.Value.load")
		return (*a[0].(*value)).(structure)[0]
	}
	externals["(*sync/atomic.Value).Store"] = func(fr *frame, a []value) value {
		if a[1].(iface).t == nil {
			panic(runtimePanic{"sync/atomic: store of nil value into Value"})
		}
		(*a[0].(*value)).(structure)[0] = a[1]
		fr.i.sched.yield("atomic.Value.store")
		return nil
	}
	externals["(*sync/atomic.Value).Swap"] = func(fr *frame, a []value) value {
		st := (*a[0].(*value)).(structure)
		old := st[0]
		st[0] = a[1]
		return old
	}
	externals["(*sync/atomic.Value).CompareAndSwap"] = func(fr *frame, a []value) value {
		i := fr.i
		st := (*a[0].(*value)).(structure)
		if i.truth(i.equalsV(types.NewInterfaceType(nil, nil), st[0], a[1])) {
			st[0] = a[2]
			return true
		}
		return false
	}
	// atomic.Pointer[T]: struct{ _ [0]*T; _ noCopy; v unsafe.Pointer } - keep the *T itself in v
	ptrField := func(a []value) *value {
		st := (*a[0].(*value)).(structure)
		return &st[len(st)-1]
	}
	unbox := func(v value, fn *ssa.Function) value {
		if u, ok := v.(uptr); ok {
			if u.v == nil {
				return zero(fn.Signature.Results().At(0).Type())
			}
			return u.v
		}
		return v
	}
	externals["(*sync/atomic.Pointer).Load"] = func(fr *frame, a []value) value {
		fr.i.sched.yield("atomic.Pointer.load")
		return unbox(*ptrField(a), fr.fn)
	}
	externals["(*sync/atomic.Pointer).Store"] = func(fr *frame, a []value) value {
		*ptrField(a) = a[1]
		fr.i.sched.yield("atomic.Pointer.store")
		return nil
	}
	externals["(*sync/atomic.Pointer).Swap"] = func(fr *frame, a []value) value {
		p := ptrField(a)
		old := unbox(*p, fr.fn)
		*p = a[1]
		return old
	}
	externals["(*sync/atomic.Pointer).CompareAndSwap"] = func(fr *frame, a []value) value {
		p := ptrField(a)
		cur := *p
		if u, ok := cur.(uptr); ok {
			if u.v == nil {
				cur = (*value)(nil)
			} else {
				cur = u.v
			}
		}
		if cur.(*value) == a[1].(*value) {
			*p = a[2]
			return true
		}
		return false
	}
}

// ---- errors, fmt ----

func init() {
	register(map[string]externalFn{
		"errors.Is": func(fr *frame, a []value) value {
			return fr.i.errorsIs(fr, a[0].(iface), a[1].(iface), 0)
		},
		"errors.As": func(fr *frame, a []value) value {
			return fr.i.errorsAs(fr, a[0].(iface), a[1].(iface))
		},
		// maps.clone is implemented in the runtime (linkname): a shallow copy
		"maps.clone": func(fr *frame, a []value) value {
			it, ok := a[0].(iface)
			if !ok {
				return a[0]
			}
			m, _ := it.v.(*omap)
			if m == nil {
				return it
			}
			c := &omap{keyType: m.keyType, idx: make(map[any]int)}
			for _, e := range m.entries {
				if !e.deleted {
					v := e.val
					switch x := v.(type) {
					case structure:
						v = append(structure(nil), x...)
					case array:
						v = append(array(nil), x...)
					}
					c.insert(e.key, v)
				}
			}
			return iface{t: it.t, v: c}
		},
		"fmt.Errorf": func(fr *frame, a []value) value {
			return fr.i.fmtErrorf(fr, a[0].(string), a[1].([]value))
		},
		"fmt.Sprintf": func(fr *frame, a []value) value {
			return fr.i.sprintf(fr, a[0].(string), a[1].([]value))
		},
		"fmt.Sprint": func(fr *frame, a []value) value {
			var sb strings.Builder
			for k, x := range a[0].([]value) {
				if k > 0 {
					sb.WriteByte(' ')
				}
				sb.WriteString(fmt.Sprint(fr.i.toNativeArg(fr, x)))
			}
			return sb.String()
		},
		"fmt.Sprintln": func(fr *frame, a []value) value {
			var xs []any
			for _, x := range a[0].([]value) {
				xs = append(xs, fr.i.toNativeArg(fr, x))
			}
			return fmt.Sprintln(xs...)
		},
		"fmt.Println": func(fr *frame, a []value) value { return tuple{0, iface{}} },
		"fmt.Printf":  func(fr *frame, a []value) value { return tuple{0, iface{}} },
		"fmt.Print":   func(fr *frame, a []value) value { return tuple{0, iface{}} },
		"fmt.Fprintf": func(fr *frame, a []value) value {
			return fr.i.fprint(fr, a[0], fr.i.sprintf(fr, a[1].(string), a[2].([]value)))
		},
		"fmt.Fprintln": func(fr *frame, a []value) value {
			var xs []any
			for _, x := range a[1].([]value) {
				xs = append(xs, fr.i.toNativeArg(fr, x))
			}
			return fr.i.fprint(fr, a[0], fmt.Sprintln(xs...))
		},
		"fmt.Fprint": func(fr *frame, a []value) value {
			var xs []any
			for _, x := range a[1].([]value) {
				xs = append(xs, fr.i.toNativeArg(fr, x))
			}
			return fr.i.fprint(fr, a[0], fmt.Sprint(xs...))
		},
		"strconv.Itoa": func(fr *frame, a []value) value { return strconv.Itoa(int(fr.i.intArg(a[0]))) },
		"strconv.Atoi": func(fr *frame, a []value) value {
			n, err := strconv.Atoi(a[0].(string))
			if err != nil {
				return tuple{n, fr.i.newError(err.Error())}
			}
			return tuple{n, iface{}}
		},
		"strconv.FormatInt": func(fr *frame, a []value) value {
			return strconv.FormatInt(fr.i.intArg(a[0]), int(fr.i.intArg(a[1])))
		},
		"strconv.Quote": func(fr *frame, a []value) value { return strconv.Quote(a[0].(string)) },
		"math.Float64bits": func(fr *frame, a []value) value {
			if s, ok := a[0].(sv); ok {
				return sv{types.Uint64, fr.i.pool.mk("fp.to_ieee_bv", SBV64, s.t)}
			}
			return math.Float64bits(a[0].(float64))
		},
		"math.Float64frombits": func(fr *frame, a []value) value {
			if s, ok := a[0].(sv); ok {
				return sv{types.Float64, fr.i.pool.mk("(_ to_fp 11 53)", SFP64, s.t)}
			}
			return math.Float64frombits(a[0].(uint64))
		},
		"math.Abs": func(fr *frame, a []value) value {
			if s, ok := a[0].(sv); ok {
				return sv{types.Float64, fr.i.pool.mk("fp.abs", SFP64, s.t)}
			}
			return math.Abs(a[0].(float64))
		},
		"math.IsNaN": func(fr *frame, a []value) value {
			if s, ok := a[0].(sv); ok {
				return mkval(types.Bool, fr.i.pool.mk("fp.isNaN", SBool, s.t))
			}
			return math.IsNaN(a[0].(float64))
		},
		"math.IsInf": func(fr *frame, a []value) value {
			if s, ok := a[0].(sv); ok {
				i := fr.i
				sign := int(i.intArg(a[1]))
				inf := i.pool.mk("fp.isInfinite", SBool, s.t)
				switch {
				case sign > 0:
					return mkval(types.Bool, i.pool.And(inf, i.pool.mk("fp.isPositive", SBool, s.t)))
				case sign < 0:
					return mkval(types.Bool, i.pool.And(inf, i.pool.mk("fp.isNegative", SBool, s.t)))
				}
				return mkval(types.Bool, inf)
			}
			return math.IsInf(a[0].(float64), int(fr.i.intArg(a[1])))
		},
		"math.Inf":   func(fr *frame, a []value) value { return math.Inf(int(fr.i.intArg(a[0]))) },
		"math.NaN":   func(fr *frame, a []value) value { return math.NaN() },
		"math.Floor": func(fr *frame, a []value) value { return math.Floor(cf(a[0])) },
		"math.Ceil":  func(fr *frame, a []value) value { return math.Ceil(cf(a[0])) },
		"math.Sqrt":  func(fr *frame, a []value) value { return math.Sqrt(cf(a[0])) },
		"math.Log":   func(fr *frame, a []value) value { return math.Log(cf(a[0])) },
		"math.Exp":   func(fr *frame, a []value) value { return math.Exp(cf(a[0])) },
		"math.Pow": func(fr *frame, a []value) value {
			_, s0 := a[0].(sv)
			_, s1 := a[1].(sv)
			if s0 || s1 {
				// nondeterministic stub: any non-negative, non-NaN float (contract of the uses in backoff)
				i := fr.i
				r := i.newVar("math.Pow", types.Float64).(sv)
				i.assume(i.pool.Not(i.pool.mk("fp.isNaN", SBool, r.t)))
				return r
			}
			return math.Pow(cf(a[0]), cf(a[1]))
		},
		"math.Min":   func(fr *frame, a []value) value { return fr.i.fminmax(a[0], a[1], true) },
		"math.Max":   func(fr *frame, a []value) value { return fr.i.fminmax(a[0], a[1], false) },
		"math.Trunc": func(fr *frame, a []value) value { return math.Trunc(cf(a[0])) },
		"math.Mod":   func(fr *frame, a []value) value { return math.Mod(cf(a[0]), cf(a[1])) },
		"sort.Strings": func(fr *frame, a []value) value {
			x := a[0].([]value)
			sort.Slice(x, func(p, q int) bool { return x[p].(string) < x[q].(string) })
			return nil
		},
		"sort.Ints": func(fr *frame, a []value) value {
			x := a[0].([]value)
			sort.Slice(x, func(p, q int) bool { return x[p].(int) < x[q].(int) })
			return nil
		},
	})
}

func cf(v value) float64 {
	if f, ok := v.(float64); ok {
		return f
	}
	panic(unsupported("symbolic float in a math function without an SMT counterpart"))
}

func (i *interpreter) fminmax(x, y value, isMin bool) value {
	_, s0 := x.(sv)
	_, s1 := y.(sv)
	if !s0 && !s1 {
		if isMin {
			return math.Min(x.(float64), y.(float64))
		}
		return math.Max(x.(float64), y.(float64))
	}
	op := "fp.max"
	if isMin {
		op = "fp.min"
	}
	p := i.pool
	tx, ty := i.term(x), i.term(y)
	// Go: NaN if either is NaN; SMT fp.min returns the other operand.
	nan := p.Or(p.mk("fp.isNaN", SBool, tx), p.mk("fp.isNaN", SBool, ty))
	return sv{types.Float64, p.Ite(nan, p.FP(math.NaN()), p.mk(op, SFP64, tx, ty))}
}

// errorsIs implements errors.Is over interpreter values.
func (i *interpreter) errorsIs(fr *frame, err, target iface, depth int) value {
	if depth > 64 {
		panic(unsupported("errors.Is: chain too deep"))
	}
	if err.t == nil || target.t == nil {
		return err.t == nil && target.t == nil
	}
	comparable := types.Comparable(target.t)
	for {
		if comparable && sameType(err.t, target.t) {
			if i.truth(i.equalsV(err.t, err.v, target.v)) {
				return true
			}
		}
		if r, ok := i.callMethodSig(fr, err, "Is", func(sig *types.Signature) bool {
			return sig.Params().Len() == 1 && sig.Results().Len() == 1 && isErrorType(sig.Params().At(0).Type()) && isBool(sig.Results().At(0).Type())
		}, target); ok {
			if i.truth(r) {
				return true
			}
		}
		// Unwrap() error
		if r, ok := i.callMethodSig(fr, err, "Unwrap", func(sig *types.Signature) bool {
			return sig.Params().Len() == 0 && sig.Results().Len() == 1 && isErrorType(sig.Results().At(0).Type())
		}); ok {
			err = r.(iface)
			if err.t == nil {
				return false
			}
			continue
		}
		// Unwrap() []error
		if r, ok := i.callMethodSig(fr, err, "Unwrap", func(sig *types.Signature) bool {
			if sig.Params().Len() != 0 || sig.Results().Len() != 1 {
				return false
			}
			sl, ok := sig.Results().At(0).Type().Underlying().(*types.Slice)
			return ok && isErrorType(sl.Elem())
		}); ok {
			for _, e := range r.([]value) {
				e := e.(iface)
				if e.t == nil {
					continue
				}
				if i.truth(i.errorsIs(fr, e, target, depth+1)) {
					return true
				}
			}
			return false
		}
		return false
	}
}

func isErrorType(t types.Type) bool {
	return types.Identical(t, types.Universe.Lookup("error").Type())
}

func isBool(t types.Type) bool {
	b, ok := t.Underlying().(*types.Basic)
	return ok && b.Kind() == types.Bool
}

// callMethodSig calls method name on it if it exists and its signature satisfies ok.
func (i *interpreter) callMethodSig(fr *frame, it iface, name string, okSig func(*types.Signature) bool, args ...value) (value, bool) {
	if it.t == nil {
		return nil, false
	}
	if _, isNative := it.v.(native); isNative {
		return i.callMethod(fr, it, name, args...)
	}
	f := i.findMethod(it.t, nil, name)
	if f == nil {
		return nil, false
	}
	if !okSig(f.Signature) {
		return nil, false
	}
	return i.call(fr, token.NoPos, f, append([]value{it.v}, args...)), true
}

// errorsAs implements errors.As.
func (i *interpreter) errorsAs(fr *frame, err, target iface) value {
	if target.t == nil {
		panic(targetPanic{iface{types.Typ[types.String], "errors: target cannot be nil"}})
	}
	pt, ok := target.t.Underlying().(*types.Pointer)
	if !ok || target.v.(*value) == nil {
		panic(targetPanic{iface{types.Typ[types.String], "errors: target must be a non-nil pointer"}})
	}
	targetType := pt.Elem()
	_, targetIsIface := targetType.Underlying().(*types.Interface)
	if !targetIsIface && !types.Implements(targetType, types.Universe.Lookup("error").Type().Underlying().(*types.Interface)) {
		panic(targetPanic{iface{types.Typ[types.String], "errors: *target must be interface or implement error"}})
	}
	return i.errorsAsRec(fr, err, target.v.(*value), targetType, targetIsIface, 0)
}

func (i *interpreter) errorsAsRec(fr *frame, err iface, dst *value, targetType types.Type, targetIsIface bool, depth int) bool {
	if depth > 64 {
		panic(unsupported("errors.As: chain too deep"))
	}
	for err.t != nil {
		if targetIsIface {
			if types.AssignableTo(err.t, targetType) {
				*dst = err
				return true
			}
		} else if types.Identical(err.t, targetType) {
			store(targetType, dst, err.v)
			return true
		}
		if r, ok := i.callMethodSig(fr, err, "As", func(sig *types.Signature) bool {
			return sig.Params().Len() == 1 && sig.Results().Len() == 1 && isBool(sig.Results().At(0).Type())
		}, iface{t: types.NewPointer(targetType), v: dst}); ok {
			if i.truth(r) {
				return true
			}
		}
		if r, ok := i.callMethodSig(fr, err, "Unwrap", func(sig *types.Signature) bool {
			return sig.Params().Len() == 0 && sig.Results().Len() == 1 && isErrorType(sig.Results().At(0).Type())
		}); ok {
			err = r.(iface)
			continue
		}
		if r, ok := i.callMethodSig(fr, err, "Unwrap", func(sig *types.Signature) bool {
			if sig.Params().Len() != 0 || sig.Results().Len() != 1 {
				return false
			}
			sl, ok := sig.Results().At(0).Type().Underlying().(*types.Slice)
			return ok && isErrorType(sl.Elem())
		}); ok {
			for _, e := range r.([]value) {
				e := e.(iface)
				if e.t == nil {
					continue
				}
				if i.errorsAsRec(fr, e, dst, targetType, targetIsIface, depth+1) {
					return true
				}
			}
			return false
		}
		return false
	}
	return false
}

// toNativeArg converts an interpreter value to a Go value for formatting.
func (i *interpreter) toNativeArg(fr *frame, v value) any {
	i.fmtDepth++
	defer func() { i.fmtDepth-- }()
	if i.fmtDepth > 4 {
		return "<...>"
	}
	if it, ok := v.(iface); ok {
		if it.t == nil {
			return nil
		}
		// error / Stringer
		if types.Implements(it.t, types.Universe.Lookup("error").Type().Underlying().(*types.Interface)) {
			if p, ok := it.v.(*value); ok && p == nil {
				return "<nil>"
			}
			return fmt.Errorf("%s", i.errorString(fr, it))
		}
		if f := i.findMethod(it.t, nil, "String"); f != nil && f.Signature.Params().Len() == 0 && f.Signature.Results().Len() == 1 {
			if p, ok := it.v.(*value); !ok || p != nil {
				if r, ok := i.call(fr, token.NoPos, f, []value{it.v}).(string); ok {
					return r
				}
			}
		}
		return i.toNativeArg(fr, it.v)
	}
	switch v := v.(type) {
	case bool, int, int8, int16, int32, int64, uint, uint8, uint16, uint32, uint64, uintptr, float32, float64, string:
		return v
	case sv:
		return "<symbolic>" // messages are opaque; never fork on a value only because it is printed
	case []value:
		// []byte?
		allBytes := len(v) > 0
		for _, e := range v {
			if _, ok := e.(uint8); !ok {
				allBytes = false
				break
			}
		}
		if allBytes {
			b := make([]byte, len(v))
			for k, e := range v {
				b[k] = e.(uint8)
			}
			return b
		}
		out := make([]any, len(v))
		for k, e := range v {
			out[k] = i.toNativeArg(fr, e)
		}
		return out
	case array:
		allBytes := len(v) > 0
		for _, e := range v {
			if _, ok := e.(uint8); !ok {
				allBytes = false
				break
			}
		}
		if allBytes {
			b := make([]byte, len(v))
			for k, e := range v {
				b[k] = e.(uint8)
			}
			return b
		}
		out := make([]any, len(v))
		for k, e := range v {
			out[k] = i.toNativeArg(fr, e)
		}
		return out
	case native:
		return v.v
	case *value:
		if v == nil {
			return nil
		}
		return "&" + fmt.Sprint(i.toNativeArg(fr, *v))
	case structure:
		out := make([]any, len(v))
		for k, e := range v {
			out[k] = i.toNativeArg(fr, e)
		}
		return out
	}
	return fmt.Sprintf("<%T>", v)
}

func (i *interpreter) sprintf(fr *frame, format string, args []value) string {
	xs := make([]any, len(args))
	for k, a := range args {
		xs[k] = i.toNativeArg(fr, a)
	}
	format = strings.ReplaceAll(format, "%w", "%v")
	return fmt.Sprintf(format, xs...)
}

// fmtErrorf builds *fmt.wrapError / *fmt.wrapErrors / *errors.errorString like fmt.Errorf.
func (i *interpreter) fmtErrorf(fr *frame, format string, args []value) value {
	msg := i.sprintf(fr, format, args)
	// find %w operands
	var wrapped []value
	argi := 0
	for k := 0; k < len(format); k++ {
		if format[k] != '%' {
			continue
		}
		k++
		for k < len(format) && strings.IndexByte("+-# 0123456789.*[]", format[k]) >= 0 {
			k++
		}
		if k >= len(format) {
			break
		}
		if format[k] == '%' {
			continue
		}
		if format[k] == 'w' && argi < len(args) {
			if it, ok := args[argi].(iface); ok && it.t != nil &&
				types.Implements(it.t, types.Universe.Lookup("error").Type().Underlying().(*types.Interface)) {
				wrapped = append(wrapped, it)
			}
		}
		argi++
	}
	pkg := i.prog.ImportedPackage("fmt")
	switch {
	case len(wrapped) == 0 || pkg == nil:
		return i.newError(msg)
	case len(wrapped) == 1:
		t := pkg.Type("wrapError").Type()
		cell := value(structure{msg, wrapped[0]})
		return iface{t: types.NewPointer(t), v: &cell}
	default:
		t := pkg.Type("wrapErrors").Type()
		cell := value(structure{msg, []value(wrapped)})
		return iface{t: types.NewPointer(t), v: &cell}
	}
}

// findMethod returns the implementation of method name on type t, or nil.
func (i *interpreter) findMethod(t types.Type, pkg *types.Package, name string) *ssa.Function {
	sel := i.prog.MethodSets.MethodSet(t).Lookup(pkg, name)
	if sel == nil {
		return nil
	}
	return i.prog.MethodValue(sel)
}

func (i *interpreter) deepRender(sb *strings.Builder, v value, depth int) {
	if depth > 64 {
		panic(pathEnd{&PathResult{Kind: "error", Msg: "verifDeepRender: value nested deeper than 64 (cyclic?)"}})
	}
	switch x := v.(type) {
	case nil:
		sb.WriteString("nil")
	case iface:
		if x.t == nil {
			sb.WriteString("nil")
			return
		}
		sb.WriteString("(" + x.t.String() + ")")
		i.deepRender(sb, x.v, depth+1)
	case bool, int, int8, int16, int32, int64, uint, uint8, uint16, uint32, uint64, uintptr, float32, float64:
		fmt.Fprintf(sb, "%v", x)
	case string:
		sb.WriteString(strconv.Quote(x))
	case sv:
		panic(pathEnd{&PathResult{Kind: "error", Msg: "verifDeepRender: symbolic leaf (unsupported)"}})
	case structure:
		sb.WriteByte('{')
		for k, e := range x {
			if k > 0 {
				sb.WriteByte(',')
			}
			i.deepRender(sb, e, depth+1)
		}
		sb.WriteByte('}')
	case array:
		sb.WriteByte('[')
		for k, e := range x {
			if k > 0 {
				sb.WriteByte(',')
			}
			i.deepRender(sb, e, depth+1)
		}
		sb.WriteByte(']')
	case []value:
		if x == nil {
			sb.WriteString("[]") // json renders a nil slice as null; for staleness purposes nil and empty are the same document shape only if the code says so - keep them equal here (conservative for omitempty fields)
			return
		}
		sb.WriteByte('[')
		for k, e := range x {
			if k > 0 {
				sb.WriteByte(',')
			}
			i.deepRender(sb, e, depth+1)
		}
		sb.WriteByte(']')
	case tuple:
		sb.WriteByte('<')
		for k, e := range x {
			if k > 0 {
				sb.WriteByte(',')
			}
			i.deepRender(sb, e, depth+1)
		}
		sb.WriteByte('>')
	case *value:
		if x == nil {
			sb.WriteString("nil")
			return
		}
		sb.WriteByte('&')
		i.deepRender(sb, *x, depth+1)
	case *omap:
		if x == nil {
			sb.WriteString("map{}")
			return
		}
		var ents []string
		for _, e := range x.entries {
			if e.deleted {
				continue
			}
			var eb strings.Builder
			i.deepRender(&eb, e.key, depth+1)
			eb.WriteByte(':')
			i.deepRender(&eb, e.val, depth+1)
			ents = append(ents, eb.String())
		}
		sort.Strings(ents)
		sb.WriteString("map{" + strings.Join(ents, ",") + "}")
	default:
		panic(pathEnd{&PathResult{Kind: "error", Msg: fmt.Sprintf("verifDeepRender: unsupported value %T", v)}})
	}
}
