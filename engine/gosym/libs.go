package gosym

// Library helpers: byte/string kernels that have no SSA body (assembly in
// internal/bytealg), pure native pass-through functions, xerrors messages.

import (
	"bytes"
	"crypto/sha256"
	"encoding/hex"
	"fmt"
	"go/types"
	"strconv"
	"strings"
	"unicode"
	"unicode/utf8"
)

func bytesOf(i *interpreter, v value) []byte {
	switch v := v.(type) {
	case string:
		return []byte(v)
	case []value:
		b := make([]byte, len(v))
		for k, e := range v {
			if s, ok := e.(sv); ok {
				e = i.concretize(s)
			}
			b[k] = e.(uint8)
		}
		return b
	}
	panic(fmt.Sprintf("bytesOf(%T)", v))
}

func fromBytes(b []byte) []value {
	if b == nil {
		return nil
	}
	out := make([]value, len(b))
	for k, e := range b {
		out[k] = e
	}
	return out
}

func hasSymElem(v value) bool {
	if sl, ok := v.([]value); ok {
		for _, e := range sl {
			if isSym(e) {
				return true
			}
		}
	}
	return false
}

// bytesEqual compares two byte sequences; symbolic elements give a symbolic result.
func (i *interpreter) bytesEqual(a, b value) value {
	if !hasSymElem(a) && !hasSymElem(b) {
		return bytes.Equal(bytesOf(i, a), bytesOf(i, b))
	}
	as, bs := toElems(a), toElems(b)
	if len(as) != len(bs) {
		return false
	}
	var acc value = true
	for k := range as {
		acc = i.andV(acc, i.equalsV(types.Typ[types.Uint8], as[k], bs[k]))
		if c, ok := acc.(bool); ok && !c {
			return false
		}
	}
	return acc
}

func toElems(v value) []value {
	switch v := v.(type) {
	case string:
		return fromBytes([]byte(v))
	case []value:
		return v
	}
	panic(fmt.Sprintf("toElems(%T)", v))
}

func init() {
	register(map[string]externalFn{
		"bytes.Equal":                 func(fr *frame, a []value) value { return fr.i.bytesEqual(a[0], a[1]) },
		"internal/bytealg.Equal":      func(fr *frame, a []value) value { return fr.i.bytesEqual(a[0], a[1]) },
		"bytes.Compare":               func(fr *frame, a []value) value { return bytes.Compare(bytesOf(fr.i, a[0]), bytesOf(fr.i, a[1])) },
		"internal/bytealg.Compare":    func(fr *frame, a []value) value { return bytes.Compare(bytesOf(fr.i, a[0]), bytesOf(fr.i, a[1])) },
		"internal/bytealg.CompareString": func(fr *frame, a []value) value { return strings.Compare(a[0].(string), a[1].(string)) },
		"internal/bytealg.IndexByte": func(fr *frame, a []value) value {
			return bytes.IndexByte(bytesOf(fr.i, a[0]), byte(fr.i.intArg(a[1])))
		},
		"internal/bytealg.IndexByteString": func(fr *frame, a []value) value {
			return strings.IndexByte(a[0].(string), byte(fr.i.intArg(a[1])))
		},
		"internal/bytealg.LastIndexByte": func(fr *frame, a []value) value {
			return bytes.LastIndexByte(bytesOf(fr.i, a[0]), byte(fr.i.intArg(a[1])))
		},
		"internal/bytealg.LastIndexByteString": func(fr *frame, a []value) value {
			return strings.LastIndexByte(a[0].(string), byte(fr.i.intArg(a[1])))
		},
		"internal/bytealg.Count": func(fr *frame, a []value) value {
			return bytes.Count(bytesOf(fr.i, a[0]), []byte{byte(fr.i.intArg(a[1]))})
		},
		"internal/bytealg.CountString": func(fr *frame, a []value) value {
			return strings.Count(a[0].(string), string([]byte{byte(fr.i.intArg(a[1]))}))
		},
		"internal/bytealg.Index": func(fr *frame, a []value) value {
			return bytes.Index(bytesOf(fr.i, a[0]), bytesOf(fr.i, a[1]))
		},
		"internal/bytealg.IndexString": func(fr *frame, a []value) value {
			return strings.Index(a[0].(string), a[1].(string))
		},
		"internal/bytealg.MakeNoZero": func(fr *frame, a []value) value {
			n := fr.i.intArg(a[0])
			out := make([]value, n)
			for k := range out {
				out[k] = uint8(0)
			}
			return out
		},
		"internal/stringslite.Index":     func(fr *frame, a []value) value { return strings.Index(a[0].(string), a[1].(string)) },
		"internal/stringslite.IndexByte": func(fr *frame, a []value) value { return strings.IndexByte(a[0].(string), byte(fr.i.intArg(a[1]))) },
		"strings.Index":                  func(fr *frame, a []value) value { return strings.Index(a[0].(string), a[1].(string)) },
		"strings.IndexByte":              func(fr *frame, a []value) value { return strings.IndexByte(a[0].(string), byte(fr.i.intArg(a[1]))) },
		"strings.Contains":               func(fr *frame, a []value) value { return strings.Contains(a[0].(string), a[1].(string)) },
		"strings.HasPrefix":              func(fr *frame, a []value) value { return strings.HasPrefix(a[0].(string), a[1].(string)) },
		"strings.HasSuffix":              func(fr *frame, a []value) value { return strings.HasSuffix(a[0].(string), a[1].(string)) },
		"strings.ToLower":                func(fr *frame, a []value) value { return strings.ToLower(a[0].(string)) },
		"strings.ToUpper":                func(fr *frame, a []value) value { return strings.ToUpper(a[0].(string)) },
		"strings.TrimSpace":              func(fr *frame, a []value) value { return strings.TrimSpace(a[0].(string)) },
		"strings.EqualFold":              func(fr *frame, a []value) value { return strings.EqualFold(a[0].(string), a[1].(string)) },
		"strings.Count":                  func(fr *frame, a []value) value { return strings.Count(a[0].(string), a[1].(string)) },
		"strings.Repeat":                 func(fr *frame, a []value) value { return strings.Repeat(a[0].(string), int(fr.i.intArg(a[1]))) },
		"strings.ReplaceAll": func(fr *frame, a []value) value {
			return strings.ReplaceAll(a[0].(string), a[1].(string), a[2].(string))
		},
		"strings.TrimPrefix": func(fr *frame, a []value) value { return strings.TrimPrefix(a[0].(string), a[1].(string)) },
		"strings.TrimSuffix": func(fr *frame, a []value) value { return strings.TrimSuffix(a[0].(string), a[1].(string)) },
		"strings.Split": func(fr *frame, a []value) value {
			parts := strings.Split(a[0].(string), a[1].(string))
			out := make([]value, len(parts))
			for k, p := range parts {
				out[k] = p
			}
			return out
		},
		"strings.Join": func(fr *frame, a []value) value {
			el := a[0].([]value)
			parts := make([]string, len(el))
			for k, e := range el {
				parts[k] = e.(string)
			}
			return strings.Join(parts, a[1].(string))
		},
		"strings.Fields": func(fr *frame, a []value) value {
			parts := strings.Fields(a[0].(string))
			out := make([]value, len(parts))
			for k, p := range parts {
				out[k] = p
			}
			return out
		},
		"strings.Compare": func(fr *frame, a []value) value { return strings.Compare(a[0].(string), a[1].(string)) },
		"strings.LastIndex": func(fr *frame, a []value) value {
			return strings.LastIndex(a[0].(string), a[1].(string))
		},
		"strings.Cut": func(fr *frame, a []value) value {
			x, y, ok := strings.Cut(a[0].(string), a[1].(string))
			return tuple{x, y, ok}
		},
		"unicode.IsLetter": func(fr *frame, a []value) value { return unicode.IsLetter(rune(fr.i.intArg(a[0]))) },
		"unicode.IsDigit":  func(fr *frame, a []value) value { return unicode.IsDigit(rune(fr.i.intArg(a[0]))) },
		"unicode.IsSpace":  func(fr *frame, a []value) value { return unicode.IsSpace(rune(fr.i.intArg(a[0]))) },
		"unicode.IsUpper":  func(fr *frame, a []value) value { return unicode.IsUpper(rune(fr.i.intArg(a[0]))) },
		"unicode.IsLower":  func(fr *frame, a []value) value { return unicode.IsLower(rune(fr.i.intArg(a[0]))) },
		"unicode.IsPunct":  func(fr *frame, a []value) value { return unicode.IsPunct(rune(fr.i.intArg(a[0]))) },
		"unicode.IsPrint":  func(fr *frame, a []value) value { return unicode.IsPrint(rune(fr.i.intArg(a[0]))) },
		"unicode.IsControl": func(fr *frame, a []value) value { return unicode.IsControl(rune(fr.i.intArg(a[0]))) },
		"unicode.IsNumber": func(fr *frame, a []value) value { return unicode.IsNumber(rune(fr.i.intArg(a[0]))) },
		"unicode.ToLower":  func(fr *frame, a []value) value { return unicode.ToLower(rune(fr.i.intArg(a[0]))) },
		"unicode.ToUpper":  func(fr *frame, a []value) value { return unicode.ToUpper(rune(fr.i.intArg(a[0]))) },
		"unicode/utf8.DecodeRuneInString": func(fr *frame, a []value) value {
			r, n := utf8.DecodeRuneInString(a[0].(string))
			return tuple{r, n}
		},
		"unicode/utf8.RuneCountInString": func(fr *frame, a []value) value { return utf8.RuneCountInString(a[0].(string)) },
		"unicode/utf8.ValidString":       func(fr *frame, a []value) value { return utf8.ValidString(a[0].(string)) },
		"unicode/utf8.RuneLen":           func(fr *frame, a []value) value { return utf8.RuneLen(rune(fr.i.intArg(a[0]))) },
		"strconv.ParseInt": func(fr *frame, a []value) value {
			n, err := strconv.ParseInt(a[0].(string), int(fr.i.intArg(a[1])), int(fr.i.intArg(a[2])))
			if err != nil {
				return tuple{n, fr.i.newError(err.Error())}
			}
			return tuple{n, iface{}}
		},
		"strconv.ParseUint": func(fr *frame, a []value) value {
			n, err := strconv.ParseUint(a[0].(string), int(fr.i.intArg(a[1])), int(fr.i.intArg(a[2])))
			if err != nil {
				return tuple{n, fr.i.newError(err.Error())}
			}
			return tuple{n, iface{}}
		},
		"strconv.ParseBool": func(fr *frame, a []value) value {
			b, err := strconv.ParseBool(a[0].(string))
			if err != nil {
				return tuple{b, fr.i.newError(err.Error())}
			}
			return tuple{b, iface{}}
		},
		"strconv.FormatBool": func(fr *frame, a []value) value { return strconv.FormatBool(a[0].(bool)) },
		"strconv.FormatUint": func(fr *frame, a []value) value {
			return strconv.FormatUint(uint64(fr.i.intArg(a[0])), int(fr.i.intArg(a[1])))
		},
		// xerrors: message = msg [": " inner]
		"(*golang.org/x/xerrors.wrapError).Error": func(fr *frame, a []value) value {
			st := (*a[0].(*value)).(structure)
			return xerrMsg(fr, st)
		},
		"(*golang.org/x/xerrors.noWrapError).Error": func(fr *frame, a []value) value {
			st := (*a[0].(*value)).(structure)
			return xerrMsg(fr, st)
		},
		"golang.org/x/xerrors.Caller": func(fr *frame, a []value) value {
			return zero(fr.fn.Signature.Results().At(0).Type())
		},
	})
}

func xerrMsg(fr *frame, st structure) string {
	msg := st[0].(string)
	if inner, ok := st[1].(iface); ok && inner.t != nil {
		return msg + ": " + fr.i.errorString(fr, inner)
	}
	return msg
}

func init() {
	register(map[string]externalFn{
		"context.WithValue": func(fr *frame, a []value) value {
			i := fr.i
			parent := a[0].(iface)
			if parent.t == nil {
				panic(targetPanic{iface{types.Typ[types.String], "cannot create context from nil parent"}})
			}
			key := a[1].(iface)
			if key.t == nil {
				panic(targetPanic{iface{types.Typ[types.String], "nil key"}})
			}
			if !types.Comparable(key.t) {
				panic(targetPanic{iface{types.Typ[types.String], "key is not comparable"}})
			}
			pkg := i.prog.ImportedPackage("context")
			t := pkg.Type("valueCtx").Type()
			cell := zero(t)
			st := cell.(structure)
			st[0], st[1], st[2] = parent, key, a[2]
			return iface{t: types.NewPointer(t), v: &cell}
		},
		"sort.Slice":       sortSliceIntrinsic,
		"sort.SliceStable": sortSliceIntrinsic,
	})
}

func sortSliceIntrinsic(fr *frame, a []value) value {
	i := fr.i
	x, ok := a[0].(iface).v.([]value)
	if !ok {
		panic(unsupported("sort.Slice on a non-slice"))
	}
	less := a[1]
	// insertion sort through the interpreted less function (stable; slices are small)
	for p := 1; p < len(x); p++ {
		for q := p; q > 0; q-- {
			if !i.truth(i.call(fr, 0, less, []value{q, q - 1})) {
				break
			}
			x[q], x[q-1] = x[q-1], x[q]
		}
	}
	return nil
}

func init() {
	register(map[string]externalFn{
		"github.com/google/uuid.NewString": func(fr *frame, a []value) value {
			fr.i.uuidSeq++
			return fmt.Sprintf("00000000-0000-4000-8000-%012d", fr.i.uuidSeq)
		},
	})
}

func init() {
	register(map[string]externalFn{
		// math/rand: a fixed value unless the harness asks for a symbolic one
		"math/rand.Float64": func(fr *frame, a []value) value {
			i := fr.i
			if i.cfg.Params["symrand"] == 1 {
				r := i.newVar("rand.Float64", types.Float64).(sv)
				p := i.pool
				i.assume(p.And(p.mk("fp.geq", SBool, r.t, p.FP(0)), p.mk("fp.lt", SBool, r.t, p.FP(1))))
				return r
			}
			return 0.5
		},
		"(*internal/godebug.Setting).Value":         func(fr *frame, a []value) value { return "" },
		"(*internal/godebug.Setting).IncNonDefault": func(fr *frame, a []value) value { return nil },
	})
}

func init() {
	register(map[string]externalFn{
		"crypto/sha256.Sum256": func(fr *frame, a []value) value {
			sum := sha256.Sum256(bytesOf(fr.i, a[0]))
			out := make(array, 32)
			for k, b := range sum {
				out[k] = b
			}
			return out
		},
		"encoding/hex.EncodeToString": func(fr *frame, a []value) value {
			return hex.EncodeToString(bytesOf(fr.i, a[0]))
		},
		"encoding/hex.DecodeString": func(fr *frame, a []value) value {
			b, err := hex.DecodeString(a[0].(string))
			if err != nil {
				return tuple{fromBytes(b), fr.i.newError(err.Error())}
			}
			return tuple{fromBytes(b), iface{}}
		},
	})
}

func init() {
	register(map[string]externalFn{
		"internal/abi.NoEscape": func(fr *frame, a []value) value { return a[0] },
		"internal/abi.Escape":   func(fr *frame, a []value) value { return a[0] },
	})
}
