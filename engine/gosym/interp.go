// Copyright 2013 The Go Authors. All rights reserved.
// Use of this source code is governed by a BSD-style
// license that can be found in the LICENSE.x-tools file.

// Package gosym is a symbolic interpreter for the SSA form of Go programs.
//
// It started as a copy of golang.org/x/tools/go/ssa/interp (v0.29.0) and was
// changed in four ways: scalars may be symbolic SMT terms; branches on
// symbolic conditions fork the exploration (by re-execution under a decision
// prefix); goroutines run under a deterministic cooperative scheduler whose
// choices are decisions too; and library code that cannot be interpreted
// (sync, atomics, context plumbing, time, errors, fmt, logging) is replaced by
// an explicit table of intrinsics and stubs.
package gosym

import (
	"fmt"
	"go/token"
	"go/types"
	"runtime"
	"slices"
	"strings"

	"golang.org/x/tools/go/ssa"
)

type continuation int

const (
	kNext continuation = iota
	kReturn
	kJump
)

type deferred struct {
	fn    value
	args  []value
	instr *ssa.Defer
	tail  *deferred
}

type frame struct {
	i                *interpreter
	g                *gor
	caller           *frame
	fn               *ssa.Function
	block, prevBlock *ssa.BasicBlock
	env              map[ssa.Value]value // dynamic values of SSA variables
	locals           []value
	defers           *deferred
	result           value
	panicking        bool
	panic            interface{}
	phitemps         []value // temporaries for parallel phi assignment
	cur              ssa.Instruction
	visits           map[*ssa.BasicBlock]int
}

func (fr *frame) get(key ssa.Value) value {
	switch key := key.(type) {
	case nil:
		return nil
	case *ssa.Function, *ssa.Builtin:
		return key
	case *ssa.Const:
		return constValue(key)
	case *ssa.Global:
		return fr.i.globalAddr(key)
	}
	if r, ok := fr.env[key]; ok {
		return r
	}
	panic(fmt.Sprintf("get: no value for %T: %v", key, key.Name()))
}

func (fr *frame) site() string {
	if fr == nil {
		return "?"
	}
	pos := token.NoPos
	if fr.cur != nil {
		pos = fr.cur.Pos()
	}
	if pos == token.NoPos {
		pos = fr.fn.Pos()
	}
	p := fr.i.prog.Fset.Position(pos)
	file := p.Filename
	if k := strings.LastIndex(file, "/pkg/"); k >= 0 {
		file = file[k+1:]
	} else if k := strings.LastIndex(file, "/"); k >= 0 {
		file = file[k+1:]
	}
	return fmt.Sprintf("%s@%s:%d", fr.fn.String(), file, p.Line)
}

// isTargetPanic reports whether p is a panic of the target program
// (as opposed to an engine control-flow payload).
func isTargetPanic(p interface{}) bool {
	switch p.(type) {
	case targetPanic, runtimePanic, goexitPanic:
		return true
	}
	return false
}

// runDefer runs a deferred call d.
// It always returns normally, but may set or clear fr.panic.
func (fr *frame) runDefer(d *deferred) {
	var ok bool
	defer func() {
		if !ok {
			p := recover()
			if !isTargetPanic(p) {
				panic(p) // engine payload: keep unwinding
			}
			// Deferred call created a new state of panic.
			fr.panicking = true
			fr.panic = p
		}
	}()
	fr.i.call(fr, d.instr.Pos(), d.fn, d.args)
	ok = true
}

// runDefers executes fr's deferred function calls in LIFO order.
func (fr *frame) runDefers() {
	for d := fr.defers; d != nil; d = d.tail {
		fr.runDefer(d)
	}
	fr.defers = nil
	if fr.panicking {
		panic(fr.panic) // new panic, or still panicking
	}
}

func lookupMethod(i *interpreter, typ types.Type, meth *types.Func) *ssa.Function {
	return i.prog.LookupMethod(typ, meth.Pkg(), meth.Name())
}

// visitInstr interprets a single ssa.Instruction within the activation
// record frame.
func visitInstr(fr *frame, instr ssa.Instruction) continuation {
	i := fr.i
	switch instr := instr.(type) {
	case *ssa.DebugRef:
		// no-op

	case *ssa.UnOp:
		fr.env[instr] = i.unop(fr, instr, fr.get(instr.X))

	case *ssa.BinOp:
		fr.env[instr] = i.binop(instr.Op, instr.X.Type(), fr.get(instr.X), fr.get(instr.Y))

	case *ssa.Call:
		fn, args, skip := i.prepareCall(fr, &instr.Call)
		if skip {
			fr.env[instr] = zeroResult(instr.Call.Signature().Results())
		} else {
			fr.env[instr] = i.call(fr, instr.Pos(), fn, args)
		}

	case *ssa.ChangeInterface:
		fr.env[instr] = fr.get(instr.X)

	case *ssa.ChangeType:
		fr.env[instr] = fr.get(instr.X) // (can't fail)

	case *ssa.Convert:
		fr.env[instr] = i.conv(instr.Type(), instr.X.Type(), fr.get(instr.X))

	case *ssa.SliceToArrayPointer:
		fr.env[instr] = sliceToArrayPointer(instr.Type(), instr.X.Type(), fr.get(instr.X))

	case *ssa.MakeInterface:
		fr.env[instr] = iface{t: instr.X.Type(), v: fr.get(instr.X)}

	case *ssa.Extract:
		fr.env[instr] = fr.get(instr.Tuple).(tuple)[instr.Index]

	case *ssa.Slice:
		fr.env[instr] = i.sliceOp(fr.get(instr.X), fr.get(instr.Low), fr.get(instr.High), fr.get(instr.Max))

	case *ssa.Return:
		switch len(instr.Results) {
		case 0:
		case 1:
			fr.result = fr.get(instr.Results[0])
		default:
			var res []value
			for _, r := range instr.Results {
				res = append(res, fr.get(r))
			}
			fr.result = tuple(res)
		}
		fr.block = nil
		return kReturn

	case *ssa.RunDefers:
		fr.runDefers()

	case *ssa.Panic:
		panic(targetPanic{fr.get(instr.X)})

	case *ssa.Send:
		i.sched.send(fr.get(instr.Chan).(*gchan), fr.get(instr.X))

	case *ssa.Store:
		addr := fr.get(instr.Addr).(*value)
		if addr == nil {
			panic(runtimePanic{"invalid memory address or nil pointer dereference"})
		}
		store(mustDeref(instr.Addr.Type()), addr, fr.get(instr.Val))

	case *ssa.If:
		succ := 1
		if i.truth(fr.get(instr.Cond)) {
			succ = 0
		}
		fr.prevBlock, fr.block = fr.block, fr.block.Succs[succ]
		return kJump

	case *ssa.Jump:
		fr.prevBlock, fr.block = fr.block, fr.block.Succs[0]
		return kJump

	case *ssa.Defer:
		fn, args, skip := i.prepareCall(fr, &instr.Call)
		if skip {
			break
		}
		defers := &fr.defers
		if into := fr.get(instr.DeferStack); into != nil {
			defers = into.(**deferred)
		}
		*defers = &deferred{
			fn:    fn,
			args:  args,
			instr: instr,
			tail:  *defers,
		}

	case *ssa.Go:
		fn, args, skip := i.prepareCall(fr, &instr.Call)
		if skip {
			break
		}
		i.sched.spawn(fr, instr.Pos(), fn, args)

	case *ssa.MakeChan:
		fr.env[instr] = i.sched.makeChan(int(i.intArg(fr.get(instr.Size))))

	case *ssa.Alloc:
		var addr *value
		if instr.Heap {
			// new
			addr = new(value)
			fr.env[instr] = addr
		} else {
			// local
			addr = fr.env[instr].(*value)
		}
		*addr = zero(mustDeref(instr.Type()))

	case *ssa.MakeSlice:
		c := i.intArg(fr.get(instr.Cap))
		l := i.intArg(fr.get(instr.Len))
		if l < 0 || c < l || c > 1<<24 {
			panic(runtimePanic{"makeslice: len out of range"})
		}
		slice := make([]value, c)
		tElt := instr.Type().Underlying().(*types.Slice).Elem()
		for k := range slice {
			slice[k] = zero(tElt)
		}
		fr.env[instr] = slice[:l]

	case *ssa.MakeMap:
		fr.env[instr] = makeMap(instr.Type().Underlying().(*types.Map).Key(), 0)

	case *ssa.Range:
		fr.env[instr] = rangeIter(fr.get(instr.X), instr.X.Type())

	case *ssa.Next:
		fr.env[instr] = fr.get(instr.Iter).(iter).next()

	case *ssa.FieldAddr:
		p := fr.get(instr.X).(*value)
		if p == nil {
			panic(runtimePanic{"invalid memory address or nil pointer dereference"})
		}
		fr.env[instr] = &(*p).(structure)[instr.Field]

	case *ssa.Field:
		fr.env[instr] = fr.get(instr.X).(structure)[instr.Field]

	case *ssa.IndexAddr:
		x := fr.get(instr.X)
		idx := fr.get(instr.Index)
		switch x := x.(type) {
		case []value:
			fr.env[instr] = &x[i.checkIndex(idx, len(x))]
		case *value: // *array
			if x == nil {
				panic(runtimePanic{"invalid memory address or nil pointer dereference"})
			}
			a := (*x).(array)
			fr.env[instr] = &a[i.checkIndex(idx, len(a))]
		default:
			panic(fmt.Sprintf("unexpected x type in IndexAddr: %T", x))
		}

	case *ssa.Index:
		x := fr.get(instr.X)
		idx := fr.get(instr.Index)
		switch x := x.(type) {
		case array:
			fr.env[instr] = i.indexLoad([]value(x), idx)
		case string:
			fr.env[instr] = x[i.checkIndex(idx, len(x))]
		default:
			panic(fmt.Sprintf("unexpected x type in Index: %T", x))
		}

	case *ssa.Lookup:
		fr.env[instr] = i.lookup(instr, fr.get(instr.X), fr.get(instr.Index))

	case *ssa.MapUpdate:
		m := fr.get(instr.Map).(*omap)
		if m == nil {
			panic(runtimePanic{"assignment to entry in nil map"})
		}
		key := fr.get(instr.Key)
		if s, ok := key.(sv); ok {
			key = i.concretize(s)
		}
		m.insert(key, fr.get(instr.Value))

	case *ssa.TypeAssert:
		fr.env[instr] = typeAssert(fr.i, instr, fr.get(instr.X).(iface))

	case *ssa.MakeClosure:
		var bindings []value
		for _, binding := range instr.Bindings {
			bindings = append(bindings, fr.get(binding))
		}
		fr.env[instr] = &closure{instr.Fn.(*ssa.Function), bindings}

	case *ssa.Phi:
		panic("unreachable: phis are processed at block entry")

	case *ssa.Select:
		fr.env[instr] = i.sched.selectOp(fr, instr)

	default:
		panic(fmt.Sprintf("unexpected instruction: %T", instr))
	}
	return kNext
}

// indexLoad returns xs[idx]; for a symbolic idx over scalars it builds an
// ite chain instead of forking.
func (i *interpreter) indexLoad(xs []value, idx value) value {
	s, ok := idx.(sv)
	if !ok {
		return xs[i.checkIndex(idx, len(xs))]
	}
	// all elements scalar of one kind?
	var k types.BasicKind
	scalar := len(xs) > 0
	for j, e := range xs {
		ek, ok := kindOf(e)
		if !ok || (j > 0 && ek != k) {
			scalar = false
			break
		}
		k = ek
	}
	if !scalar {
		return xs[i.checkIndex(idx, len(xs))]
	}
	p := i.pool
	nn := p.BV(uint64(len(xs)), s.t.sort)
	var inb *Term
	if kindSigned(s.k) {
		inb = p.And(p.BVCmp("bvsge", s.t, p.BV(0, s.t.sort)), p.BVCmp("bvslt", s.t, nn))
	} else {
		inb = p.BVCmp("bvult", s.t, nn)
	}
	if !i.branch(inb) {
		panic(runtimePanic{fmt.Sprintf("index out of range [symbolic] with length %d", len(xs))})
	}
	acc := i.term(xs[len(xs)-1])
	for j := len(xs) - 2; j >= 0; j-- {
		acc = p.Ite(p.Eq(s.t, p.BV(uint64(j), s.t.sort)), i.term(xs[j]), acc)
	}
	return mkval(k, acc)
}

func zeroResult(res *types.Tuple) value {
	switch res.Len() {
	case 0:
		return nil
	case 1:
		return zero(res.At(0).Type())
	}
	return zero(res)
}

// prepareCall determines the function value and argument values for a
// function call in a Call, Go or Defer instruction, performing
// interface method lookup if needed. skip is true when the call is to a
// no-op (absorbing) package and must not be executed at all.
func (i *interpreter) prepareCall(fr *frame, call *ssa.CallCommon) (fn value, args []value, skip bool) {
	if call.Method != nil {
		if pkg := call.Method.Pkg(); pkg != nil && i.cfg.isNoop(pkg.Path()) {
			return nil, nil, true
		}
		// interface declared in a no-op package (method may be promoted from elsewhere)
		if named, ok := call.Value.Type().(*types.Named); ok && named.Obj().Pkg() != nil && i.cfg.isNoop(named.Obj().Pkg().Path()) {
			return nil, nil, true
		}
	} else if f, ok := call.Value.(*ssa.Function); ok {
		if i.cfg.isNoopFunc(f) {
			return nil, nil, true
		}
	}
	v := fr.get(call.Value)
	if call.Method == nil {
		// Function call.
		fn = v
	} else {
		// Interface method invocation.
		recv := v.(iface)
		if recv.t == nil {
			panic(runtimePanic{"invalid memory address or nil pointer dereference (method " + call.Method.Name() + " invoked on nil interface)"})
		}
		if nv, ok := recv.v.(native); ok {
			fn = &nativeMethod{recv: nv, name: call.Method.Name(), sig: call.Signature()}
		} else if f := lookupMethod(i, recv.t, call.Method); f == nil {
			panic(fmt.Sprintf("method set for dynamic type %v does not contain %s", recv.t, call.Method))
		} else {
			fn = f
			args = append(args, recv.v)
		}
	}
	for _, arg := range call.Args {
		args = append(args, fr.get(arg))
	}
	return
}

// call interprets a call to a function (function, builtin or closure)
// fn with arguments args, returning its result.
func (i *interpreter) call(caller *frame, callpos token.Pos, fn value, args []value) value {
	switch fn := fn.(type) {
	case *ssa.Function:
		if fn == nil {
			panic(runtimePanic{"invalid memory address or nil pointer dereference (call of nil func)"})
		}
		return i.callSSA(caller, callpos, fn, args, nil)
	case *closure:
		if fn == nil {
			panic(runtimePanic{"invalid memory address or nil pointer dereference (call of nil func)"})
		}
		return i.callSSA(caller, callpos, fn.Fn, args, fn.Env)
	case *ssa.Builtin:
		return i.callBuiltin(caller, callpos, fn, args)
	case *nativeMethod:
		return i.callNativeMethod(caller, fn, args)
	case *hostFunc:
		return fn.f(caller, args)
	}
	panic(fmt.Sprintf("cannot call %T", fn))
}

// hostFunc is a func value implemented by the engine (e.g. a stub closure).
type hostFunc struct {
	name string
	f    func(fr *frame, args []value) value
}

// callSSA interprets a call to function fn with arguments args,
// and lexical environment env, returning its result.
func (i *interpreter) callSSA(caller *frame, callpos token.Pos, fn *ssa.Function, args []value, env []value) value {
	if len(i.cfg.Summaries) > 0 && i.sub == nil && i.initMode == 0 {
		if drop, ok := i.cfg.Summaries[fn.String()]; ok {
			if v, ok := i.summarizeCall(caller, callpos, fn, args, env, drop); ok {
				return v
			}
		}
	}
	return i.callSSAbody(caller, callpos, fn, args, env)
}

func (i *interpreter) callSSAbody(caller *frame, callpos token.Pos, fn *ssa.Function, args []value, env []value) value {
	var g *gor
	if caller != nil {
		g = caller.g
	} else {
		g = i.sched.cur
	}
	fr := &frame{
		i:      i,
		g:      g,
		caller: caller, // for panic/recover
		fn:     fn,
	}
	if fn.Parent() == nil {
		if ext := i.lookupIntrinsic(fn); ext != nil {
			return ext(fr, args)
		}
		if i.cfg.isNoopFunc(fn) {
			return zeroResult(fn.Signature.Results())
		}
		if fn.Blocks == nil {
			panic(unsupported("no code for function: " + fn.String()))
		}
	}
	if i.funcs != nil {
		i.funcs[fn]++
	}

	// generic function body?
	if fn.TypeParams().Len() > 0 && len(fn.TypeArgs()) == 0 {
		panic(unsupported("uninstantiated generic function " + fn.String()))
	}
	i.depth++
	if i.depth > 2000 {
		panic(unsupported("call depth exceeded in " + fn.String()))
	}
	defer func() { i.depth-- }()

	fr.env = make(map[ssa.Value]value, len(fn.Params)+len(fn.Locals)+8)
	fr.block = fn.Blocks[0]
	fr.locals = make([]value, len(fn.Locals))
	for k, l := range fn.Locals {
		fr.locals[k] = zero(mustDeref(l.Type()))
		fr.env[l] = &fr.locals[k]
	}
	for k, p := range fn.Params {
		fr.env[p] = args[k]
	}
	for k, fv := range fn.FreeVars {
		fr.env[fv] = env[k]
	}
	for fr.block != nil {
		runFrame(fr)
	}
	return fr.result
}

// runFrame executes SSA instructions starting at fr.block and
// continuing until a return, a panic, or a recovered panic.
func runFrame(fr *frame) {
	defer func() {
		if fr.block == nil {
			return // normal return
		}
		p := recover()
		if !isTargetPanic(p) {
			// Engine payload (path end, unsupported, abort) or interpreter bug:
			// unwind without running target defers.
			if _, ok := p.(runtime.Error); ok {
				p = engineError{fmt.Sprintf("%v at %s", p, fr.site()), "target: " + fr.stack() + "\n" + stackOf()}
			} else if s, ok := p.(string); ok {
				p = engineError{fmt.Sprintf("%s at %s", s, fr.site()), "target: " + fr.stack() + "\n" + stackOf()}
			} else if u, ok := p.(unsupportedPanic); ok && !strings.Contains(u.msg, " <- ") {
				p = unsupportedPanic{u.msg + " [at " + fr.stack() + "]"}
			}
			panic(p)
		}
		if !fr.i.panicSited {
			fr.i.panicSited = true
			fr.i.panicSite = fr.site()
			fr.i.panicStack = fr.stack()
		}
		fr.panicking = true
		fr.panic = p
		fr.runDefers()
		fr.block = fr.fn.Recover
		if fr.block == nil {
			// recovered in a function without named results: return zero values
			fr.result = zeroResult(fr.fn.Signature.Results())
		}
	}()

	i := fr.i
	for {
		if fr.visits != nil || len(fr.block.Preds) > 1 {
			if fr.visits == nil {
				fr.visits = make(map[*ssa.BasicBlock]int)
			}
			fr.visits[fr.block]++
			if fr.visits[fr.block] > i.cfg.Unwind {
				panic(budgetPanic{"unwind", fmt.Sprintf("loop bound %d exceeded at %s", i.cfg.Unwind, fr.site())})
			}
		}
		nonPhis := executePhis(fr)
		for _, instr := range nonPhis {
			i.steps++
			if i.steps > i.cfg.MaxSteps {
				panic(budgetPanic{"steps", fmt.Sprintf("instruction budget %d exceeded at %s", i.cfg.MaxSteps, fr.site())})
			}
			fr.cur = instr
			if visitInstr(fr, instr) == kReturn {
				return
			}
		}
	}
}

func stackOf() string {
	buf := make([]byte, 1<<14)
	n := runtime.Stack(buf, false)
	return string(buf[:n])
}

func (fr *frame) stack() string {
	var sb strings.Builder
	for f, n := fr, 0; f != nil && n < 12; f, n = f.caller, n+1 {
		sb.WriteString(f.site())
		sb.WriteString(" <- ")
	}
	return sb.String()
}

// executePhis executes the phi-nodes at the start of the current
// block and returns the non-phi instructions.
func executePhis(fr *frame) []ssa.Instruction {
	firstNonPhi := -1
	for k, instr := range fr.block.Instrs {
		if _, ok := instr.(*ssa.Phi); !ok {
			firstNonPhi = k
			break
		}
	}
	nonPhis := fr.block.Instrs[firstNonPhi:]
	if firstNonPhi > 0 {
		phis := fr.block.Instrs[:firstNonPhi]
		predIndex := slices.Index(fr.block.Preds, fr.prevBlock)
		fr.phitemps = fr.phitemps[:0]
		for _, phi := range phis {
			phi := phi.(*ssa.Phi)
			fr.phitemps = append(fr.phitemps, fr.get(phi.Edges[predIndex]))
		}
		for k, phi := range phis {
			fr.env[phi.(*ssa.Phi)] = fr.phitemps[k]
		}
	}
	return nonPhis
}

// doRecover implements the recover() built-in.
func doRecover(caller *frame) value {
	// recover() must be exactly one level beneath the deferred
	// function (two levels beneath the panicking function) to
	// have any effect.
	if caller != nil && !caller.panicking &&
		caller.caller != nil && caller.caller.panicking {
		p := caller.caller.panic
		if _, ok := p.(goexitPanic); ok {
			return iface{} // Goexit cannot be recovered
		}
		caller.caller.panicking = false
		caller.caller.panic = nil
		caller.i.panicSited = false
		switch p := p.(type) {
		case targetPanic:
			return p.v
		case runtimePanic:
			return iface{caller.i.runtimeErrorString, p.msg}
		default:
			panic(fmt.Sprintf("unexpected panic type %T in target call to recover()", p))
		}
	}
	return iface{}
}

// engineError is an internal failure of the interpreter (not a verdict).
type engineError struct {
	msg   string
	stack string
}

// budgetPanic aborts a path because a bound was hit.
type budgetPanic struct{ kind, msg string }

// goexitPanic unwinds a goroutine for runtime.Goexit (runs defers).
type goexitPanic struct{}
