package gosym

// Pure-callee summaries. A side-effect-free callee listed by the harness
// (Config.Summaries) is explored on its own at each call: every feasible
// path of the callee yields (condition, result); the caller continues on ONE
// path with the merged result ite(c1,r1,ite(c2,r2,...)). Scalar results are
// merged exactly; result components declared "dropped" by the harness are
// replaced by their zero value (they must not influence the property).

import (
	"fmt"
	"go/token"
	"go/types"

	"golang.org/x/tools/go/ssa"
)

type subExplore struct {
	prefix  []Decision
	pos     int
	trace   []Decision
	pending [][]Decision
	conds   []*Term
}

type summaryAbort struct{ why string }

func (i *interpreter) summarizeCall(caller *frame, callpos token.Pos, fn *ssa.Function, args []value, env []value, drop []int) (res value, ok bool) {
	type outcome struct {
		cond *Term
		val  value
	}
	var outs []outcome
	work := [][]Decision{nil}
	aborted := ""
	runs := 0
	for len(work) > 0 && aborted == "" {
		prefix := work[len(work)-1]
		work = work[:len(work)-1]
		runs++
		if runs > 4096 {
			aborted = "too many callee paths"
			break
		}
		sub := &subExplore{prefix: prefix}
		i.sub = sub
		i.solver.Push()
		var val value
		func() {
			defer func() {
				if p := recover(); p != nil {
					if sa, isAbort := p.(summaryAbort); isAbort {
						aborted = sa.why
						return
					}
					i.sub = nil
					i.solver.Pop()
					panic(p)
				}
			}()
			val = i.callSSAbody(caller, callpos, fn, args, env)
		}()
		i.solver.Pop()
		i.sub = nil
		if aborted != "" {
			break
		}
		cond := i.pool.Bool(true)
		for _, c := range sub.conds {
			cond = i.pool.And(cond, c)
		}
		outs = append(outs, outcome{cond, val})
		work = append(work, sub.pending...)
	}
	if aborted != "" || len(outs) == 0 {
		return nil, false
	}
	i.summaries++
	i.summaryPaths += len(outs)
	// merge
	nres := fn.Signature.Results().Len()
	dropped := map[int]bool{}
	for _, d := range drop {
		dropped[d] = true
	}
	comp := func(v value, k int) value {
		if nres == 1 {
			return v
		}
		return v.(tuple)[k]
	}
	merged := make([]value, nres)
	for k := 0; k < nres; k++ {
		rt := fn.Signature.Results().At(k).Type()
		if dropped[k] {
			merged[k] = zero(rt)
			continue
		}
		first := comp(outs[0].val, k)
		if kd, isScalar := kindOf(first); isScalar {
			acc := i.term(comp(outs[len(outs)-1].val, k))
			for j := len(outs) - 2; j >= 0; j-- {
				acc = i.pool.Ite(outs[j].cond, i.term(comp(outs[j].val, k)), acc)
			}
			merged[k] = mkval(kd, acc)
			continue
		}
		// non-scalar: must be identical on every path
		for _, o := range outs[1:] {
			same := false
			func() {
				defer func() { recover() }()
				if b, isB := i.equalsV(rt, first, comp(o.val, k)).(bool); isB && b {
					same = true
				}
			}()
			if !same {
				panic(unsupported(fmt.Sprintf("summary of %s: result %d (%v) differs between callee paths and is not a scalar", fn, k, rt)))
			}
		}
		merged[k] = first
	}
	if nres == 0 {
		return nil, true
	}
	if nres == 1 {
		return merged[0], true
	}
	return tuple(merged), true
}

var _ = types.Typ
