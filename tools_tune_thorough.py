#!/usr/bin/env python3
# Development aid: for every harness try the registered thorough tier under a wall-clock cap;
# if it does not complete cleanly fall back to "quick bound, every decision by the solver".
import json, subprocess, time, sys, os

CAP = int(os.environ.get('CAP', '300'))
p = '/verif/harness/index.json'
idx = json.load(open(p))
known_fail = set(sys.argv[1:])
log = open('/tmp/tune_thorough.log', 'a')


def run(name, prop):
    t0 = time.time()
    proc = subprocess.Popen(['./bin/gosym', 'run', '-harness', name, '-prop', prop, '-tier', 'thorough'], cwd='/verif',
                            env={**os.environ, 'VERIF_OUT': '/tmp/verif-thorough-out'}, stdout=subprocess.PIPE, stderr=subprocess.STDOUT, text=True)
    try:
        txt, _ = proc.communicate(timeout=CAP)
        rc = proc.returncode
    except subprocess.TimeoutExpired:
        proc.kill()
        proc.communicate()
        subprocess.run(['pkill', '-x', 'z3'])
        return 'timeout', time.time() - t0, ''
    last = [l for l in txt.splitlines() if l.startswith('property=')]
    return rc, time.time() - t0, (last[-1] if last else txt[-300:])


for h in idx['harnesses']:
    name = h['name']
    prop = (h.get('properties') or [h.get('property')])[0]
    if h.get('thorough_tuned'):
        continue
    if name in known_fail:
        rc, dt, last = 'known-fail', 0, ''
    else:
        rc, dt, last = run(name, prop)
    ok = rc == 0
    log.write(f"{name} thorough rc={rc} {dt:.0f}s {last}\n")
    log.flush()
    if not ok and h.get('expect') != 'violation':
        q = dict(h.get('quick', {}))
        q['no_fastpath'] = True
        h['thorough_was'] = h.get('thorough')
        h['thorough'] = q
        log.write(f"   -> fallback to quick bound + all-SMT: {json.dumps(q)}\n")
        log.flush()
    h['thorough_tuned'] = True
    json.dump(idx, open(p, 'w'), indent=1)
log.write('TUNEDONE\n')
